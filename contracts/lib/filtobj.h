/* ghost record for the component dispatch of composed filters (C06): which operation of which component was applied to which
 * component of the vector.  op: 1 rhs, 2 sol, 3 def, 4 cor;  part: 1 = vector.first(), 2 = vector.rest() */
#ifndef VERIF_FILTOBJ_H
#define VERIF_FILTOBJ_H
typedef int SELF_T;
typedef int VPART;
int nf_calls, nr_calls, f_op, r_op; VPART f_part, r_part;
#define VEC_first(v) 1
#define VEC_rest(v) 2
static void FIRST_op(int op, VPART p) { ++nf_calls; f_op = op; f_part = p; }
static void REST_op(int op, VPART p) { ++nr_calls; r_op = op; r_part = p; }
#endif
