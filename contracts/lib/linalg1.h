/* one-dimensional ring instantiation of a multigrid level (see linalg1.rules) */
#ifndef VERIF_LINALG1_H
#define VERIF_LINALG1_H
typedef uint8_t V1;
typedef uint8_t DataType;
typedef enum { Status_undefined = 0, Status_progress, Status_success, Status_aborted, Status_diverged, Status_max_iter, Status_stagnated } Status;
typedef struct {
  V1 vec_sol, vec_rhs, vec_def, vec_cor, vec_tmp;   /* LevelInfo vectors */
  V1 A;                                             /* system matrix */
  V1 Fd, Fc;                                        /* system filter acting on defects / corrections */
  V1 S_pre, S_post, S_peak;                         /* smoothers (linear) */
  bool has_pre, has_post, has_peak;                 /* which smoothers the level has */
} LVL1;
typedef LVL1 SELF_T;
#define lvl (*lvlp)
/* documented semantics of one smoothing step with defect recomputation (written from the property statement) */
#define SM_SOL(s0, d0, S)  ((V1)((s0) + (V1)(self->Fc * (V1)((S) * (d0)))))
#define DEFECT(s)          ((V1)(self->Fd * (V1)(self->vec_rhs - (V1)(self->A * (s)))))
#ifdef LA1_DECL_SMOOTH_DEF
/* callee contract of _apply_smooth_def (proved by contracts/C09/smooth_def.spec), used by --replace-call-with-contract */
V1 la1_s0, la1_d0;
bool apply_smooth_def(LVL1 * self, Index cur_lvl, const V1 smoother)
__CPROVER_requires(__CPROVER_rw_ok(self, sizeof(LVL1)))
__CPROVER_assigns(self->vec_cor, self->vec_sol, self->vec_def)
__CPROVER_ensures(__CPROVER_return_value == 1)
__CPROVER_ensures(self->vec_sol == SM_SOL(__CPROVER_old(self->vec_sol), __CPROVER_old(self->vec_def), smoother))
__CPROVER_ensures(self->vec_def == DEFECT(self->vec_sol))
;
#endif
#endif
