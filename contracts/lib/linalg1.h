/* one-dimensional ring instantiation of a multigrid level (see linalg1.rules) */
#ifndef VERIF_LINALG1_H
#define VERIF_LINALG1_H
typedef uint8_t V1;
typedef uint8_t DataType;
/* the three products of the vector API:
 *   APP(M, x)  an operator (matrix, filter, smoother, transfer) applied to a vector
 *   SMUL(a, v) a scalar times a vector
 *   DOT(a, b)  the dot product
 * ring mode (default): all three are the product of Z/2^8.
 * LA1_UF mode: all three are ARBITRARY binary functions (CBMC uninterpreted function symbols), except that SMUL agrees with the
 * ring for the scalars 1 and -1 (the only scalar identities the code relies on). A proof in this mode holds for every
 * interpretation of the products - in particular the real matrices and the floating point dot products - and decides
 * which operator is applied to which operand, in which order. */
#ifdef LA1_UF
#ifndef LA1_UF_FUNCS   /* default: nondeterministic constant tables of unbounded size (loop invariants may not contain function calls) */
extern const V1 APPTAB[__CPROVER_constant_infinity_uint], SMULTAB[__CPROVER_constant_infinity_uint], DOTTAB[__CPROVER_constant_infinity_uint];
#define UF2(T, a, b) (T[((unsigned)(V1)(a) << 8) | (V1)(b)])
#define APP(M, x)  UF2(APPTAB, M, x)
#define SMUL(a, v) ((V1)(a) == 1 ? (V1)(v) : (V1)(a) == (V1)255 ? (V1)(-(v)) : UF2(SMULTAB, a, v))
#define DOT(a, b)  UF2(DOTTAB, a, b)
#else
V1 __CPROVER_uninterpreted_app(V1, V1);
V1 __CPROVER_uninterpreted_smul(V1, V1);
V1 __CPROVER_uninterpreted_dot(V1, V1);
#define APP(M, x)  (__CPROVER_uninterpreted_app((V1)(M), (V1)(x)))
#define SMUL(a, v) ((V1)(a) == 1 ? (V1)(v) : (V1)(a) == (V1)255 ? (V1)(-(v)) : __CPROVER_uninterpreted_smul((V1)(a), (V1)(v)))
#define DOT(a, b)  (__CPROVER_uninterpreted_dot((V1)(a), (V1)(b)))
#endif
#define LA1_HAVOC() ((void)0)
#else
#define APP(M, x)  ((V1)((M) * (x)))
#define SMUL(a, v) ((V1)((a) * (v)))
#define DOT(a, b)  ((V1)((a) * (b)))
#define LA1_HAVOC() ((void)0)
#endif
typedef enum { Status_undefined = 0, Status_progress, Status_success, Status_aborted, Status_diverged, Status_max_iter, Status_stagnated } Status;
typedef struct {
  V1 vec_sol, vec_rhs, vec_def, vec_cor, vec_tmp;   /* LevelInfo vectors */
  V1 A;                                             /* system matrix */
  V1 Fd, Fc;                                        /* system filter acting on defects / corrections */
  V1 S_pre, S_post, S_peak;                         /* smoothers (linear) */
  bool has_pre, has_post, has_peak;                 /* which smoothers the level has */
  V1 S_crs; bool has_crs;                           /* coarse solver (linear) of this level, if any */
  V1 R, P;                                          /* transfer operator of this level: restriction to / prolongation from the next coarser level */
  bool ghost;                                       /* transfer operator is a ghost (coarser level lives on another process) */
} LVL1;
typedef LVL1 SELF_T;
#define lvl (*lvlp)
#define lvl_f (*lvl_fp)
#define lvl_c (*lvl_cp)
#define lvl_crs (*lvl_crsp)
#define MAXLV 8
LVL1 LV[MAXLV + 1];          /* the level hierarchy: index 0 = finest */
Index top_level, crs_level, hier_size;
int n_rest_send, n_prol_recv;
Index gl;                            /* ghost (Skolem) level the contracts speak about */
V1 prol_recvd;                       /* ghost record of prol_recv on level gl: the correction received */
Index rest_send_lvl; V1 rest_sent;   /* ghost record of rest_send: the level whose transfer sent, and the vector sent */
/* documented semantics of one smoothing step with defect recomputation (written from the property statement) */
#define SM_SOL(s0, d0, S)  ((V1)((s0) + APP(self->Fc, APP((S), (d0)))))
#define DEFECT(s)          (APP(self->Fd, (V1)(self->vec_rhs - APP(self->A, (s)))))
#ifdef LA1_DECL_SMOOTH_DEF
/* callee contract of _apply_smooth_def (proved by contracts/C09/smooth_def.spec), used by --replace-call-with-contract */
V1 la1_s0, la1_d0;
bool apply_smooth_def(LVL1 * self, Index cur_lvl, const V1 smoother)
__CPROVER_requires(__CPROVER_rw_ok(self, sizeof(LVL1)))
__CPROVER_assigns(self->vec_cor, self->vec_sol, self->vec_def)
__CPROVER_ensures(__CPROVER_return_value == 1)
__CPROVER_ensures(self->vec_sol == SM_SOL(__CPROVER_old(self->vec_sol), __CPROVER_old(self->vec_def), smoother))
__CPROVER_ensures(self->vec_def == DEFECT(self->vec_sol))
;
#endif
#endif
