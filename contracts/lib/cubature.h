/* Closed-evaluation harness support for cubature rules (C14): the extracted fill() writes into W / X,
 * the checkers integrate every monomial up to the nominal degree and compare with the exact integral.
 * All arrays are small (field-sensitive in CBMC's symbolic execution) so that the closed program constant-folds. */
#ifndef VERIF_CUBATURE_H
#define VERIF_CUBATURE_H
#define MAXP 80
#ifndef TAU
#define TAU 5e-13     /* tables carry 15 significant digits; part of the specification, printed in evidence */
#endif
typedef double Weight_;
typedef double Coord_;
double W[MAXP];
double X[MAXP][3];
#define ABSD(x) ((x) < 0 ? -(x) : (x))
#define MAXDEG 21
#define STR_(x) #x
#define STR(x) STR_(x)

static void cub_reset(void) { for(int i = 0; i < MAXP; ++i) { W[i] = 0.0; X[i][0] = 0.0; X[i][1] = 0.0; X[i][2] = 0.0; } }
static double cub_fact(int n) { double f = 1.0; for(int i = 2; i <= n; ++i) f *= (double)i; return f; }
static double cub_wsum(int npts) { double s = 0.0; for(int i = 0; i < npts; ++i) s += W[i]; return s; }

/* exact integral of x^a y^b z^c over the reference simplex (dim: unused exponents are 0) / hypercube [-1,1]^dim */
static double cub_exact_simplex(int dim, int a, int b, int c) { return cub_fact(a) * cub_fact(b) * cub_fact(c) / cub_fact(a + b + c + dim); }
static double cub_exact_cube(int dim, int a, int b, int c)
{
  double e = ((a % 2) ? 0.0 : 2.0 / (double)(a + 1));
  if(dim >= 2) e *= ((b % 2) ? 0.0 : 2.0 / (double)(b + 1));
  if(dim >= 3) e *= ((c % 2) ? 0.0 : 2.0 / (double)(c + 1));
  return e;
}

/* number of monomials of total degree <= deg whose quadrature value differs from the exact integral by more than TAU.
   kind 0 = simplex, 1 = hypercube.  Moments are accumulated point by point with per-point running powers. */
static int cub_bad(int kind, int dim, int npts, int deg)
{
  int bad = 0;
  if(dim == 1)
  {
    double M1[2*MAXDEG];
    for(int a = 0; a <= deg; ++a) M1[a] = 0.0;
    for(int i = 0; i < npts; ++i) { double p = W[i]; for(int a = 0; a <= deg; ++a) { M1[a] += p; p *= X[i][0]; } }
    for(int a = 0; a <= deg; ++a) { double e = kind ? cub_exact_cube(1, a, 0, 0) : cub_exact_simplex(1, a, 0, 0); if(!(ABSD(M1[a] - e) <= TAU)) ++bad; }
  }
  else if(dim == 2)
  {
    double M2[MAXDEG][MAXDEG];
    for(int a = 0; a <= deg; ++a) for(int b = 0; a + b <= deg; ++b) M2[a][b] = 0.0;
    for(int i = 0; i < npts; ++i)
    {
      double px = W[i];
      for(int a = 0; a <= deg; ++a) { double p = px; for(int b = 0; a + b <= deg; ++b) { M2[a][b] += p; p *= X[i][1]; } px *= X[i][0]; }
    }
    for(int a = 0; a <= deg; ++a) for(int b = 0; a + b <= deg; ++b)
    { double e = kind ? cub_exact_cube(2, a, b, 0) : cub_exact_simplex(2, a, b, 0); if(!(ABSD(M2[a][b] - e) <= TAU)) ++bad; }
  }
  else
  {
    double M3[12][12][12];
    for(int a = 0; a <= deg; ++a) for(int b = 0; a + b <= deg; ++b) for(int c = 0; a + b + c <= deg; ++c) M3[a][b][c] = 0.0;
    for(int i = 0; i < npts; ++i)
    {
      double px = W[i];
      for(int a = 0; a <= deg; ++a)
      {
        double py = px;
        for(int b = 0; a + b <= deg; ++b) { double p = py; for(int c = 0; a + b + c <= deg; ++c) { M3[a][b][c] += p; p *= X[i][2]; } py *= X[i][1]; }
        px *= X[i][0];
      }
    }
    for(int a = 0; a <= deg; ++a) for(int b = 0; a + b <= deg; ++b) for(int c = 0; a + b + c <= deg; ++c)
    { double e = kind ? cub_exact_cube(3, a, b, c) : cub_exact_simplex(3, a, b, c); if(!(ABSD(M3[a][b][c] - e) <= TAU)) ++bad; }
  }
  return bad;
}
#define cub_simplex_bad(dim, npts, deg) cub_bad(0, dim, npts, deg)
#define cub_cube_bad(dim, npts, deg) cub_bad(1, dim, npts, deg)
#endif
