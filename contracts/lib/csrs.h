/* C view of the SHAPE of a LAFEM::SparseMatrixCSR for method-level contracts */
#ifndef VERIF_CSRS_H
#define VERIF_CSRS_H
typedef struct { Index rows, columns, nnz; } CSRS;
typedef CSRS SELF_T;
/* assumed contract (not extracted C++): this->move(SparseMatrixCSR(r, c)) makes *this an entry-free r x c matrix */
void CSR_move_empty(CSRS * self, Index r, Index c)
__CPROVER_requires(__CPROVER_rw_ok(self, sizeof(CSRS)))
__CPROVER_assigns(*self)
__CPROVER_ensures(self->rows == r && self->columns == c && self->nnz == 0)
;
#endif
