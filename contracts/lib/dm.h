/* C view of LAFEM::DenseMatrix for method-level contracts (C02): shape fields + ghost record of which kernel filled the element array.
 * The element array itself is abstract here; its contents are the subject of the Transpose kernel contract (dense_transpose.spec). */
#ifndef VERIF_DM_H
#define VERIF_DM_H
typedef struct {
  Index rows, columns;     /* DenseMatrix::rows(), columns() */
  Index cap;               /* ghost: number of elements the array holds (== rows*columns for a well-formed matrix) */
  int   ghost_tr;          /* ghost: 1 iff the array was last written by Transpose::value(.., x, tr_rows, tr_cols) */
  Index tr_rows, tr_cols;  /* ghost: the source shape that kernel was called with; the array then holds a tr_cols x tr_rows matrix */
} DM;
typedef DM SELF_T;
Index nondet_Index(void);

/* assumed contracts of the C++ pieces that are not extracted (DenseMatrix constructor, Container::move) and of the kernel dispatcher */
DM DM_make(Index r, Index c)
__CPROVER_assigns()
__CPROVER_ensures(__CPROVER_return_value.rows == r && __CPROVER_return_value.columns == c && __CPROVER_return_value.ghost_tr == 0)
;
void DM_move(DM * self, DM * src)
__CPROVER_requires(__CPROVER_rw_ok(self, sizeof(DM)) && __CPROVER_r_ok(src, sizeof(DM)))
__CPROVER_assigns(*self)
__CPROVER_ensures(self->rows == src->rows && self->columns == src->columns && self->ghost_tr == src->ghost_tr && self->tr_rows == src->tr_rows && self->tr_cols == src->tr_cols)
;
/* Arch::Transpose::value(tgt.elements(), x.elements(), rows_x, columns_x): writes the transposed data into tgt's array (contents: dense_transpose.spec) */
void Transpose_value_dm(DM * tgt, const DM * xsrc, Index rows_x, Index columns_x)
__CPROVER_requires(__CPROVER_rw_ok(tgt, sizeof(DM)))
__CPROVER_assigns(tgt->ghost_tr, tgt->tr_rows, tgt->tr_cols)
__CPROVER_ensures(tgt->ghost_tr == 1 && tgt->tr_rows == rows_x && tgt->tr_cols == columns_x)
;
#endif
