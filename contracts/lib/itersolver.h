/* C view of the convergence-control state of Solver::IterativeSolver (kernel/solver/iterative.hpp) and
 * of enum class Status (kernel/solver/base.hpp).  Only the fields the control functions touch. */
#ifndef VERIF_ITERSOLVER_H
#define VERIF_ITERSOLVER_H
typedef double DataType;
typedef enum { Status_undefined = 0, Status_progress, Status_success, Status_aborted, Status_diverged, Status_max_iter, Status_stagnated } Status;
typedef struct {
  DataType _tol_rel, _tol_abs, _tol_abs_low, _div_rel, _div_abs, _stag_rate;
  Index _min_iter, _max_iter, _num_iter, _min_stag_iter, _num_stag_iter;
  DataType _def_init, _def_cur, _def_prev;
} SELF_T;
#define MEMBERS _tol_rel _tol_abs _tol_abs_low _div_rel _div_abs _stag_rate _min_iter _max_iter _num_iter _min_stag_iter _num_stag_iter _def_init _def_cur _def_prev
/* specification predicates, written from the property statement (NOT cut from the code) */
#define SPEC_CONVERGED(s, d) (((d) <= (s)->_tol_abs) && (((d) <= ((s)->_tol_rel * (s)->_def_init)) || ((d) <= (s)->_tol_abs_low)))
#define SPEC_DIVERGED(s, d)  (((d) > (s)->_div_abs) || ((d) > ((s)->_div_rel * (s)->_def_init)))
/* callee contracts (proved by contracts/C07/is_converged.spec, is_diverged.spec, analyse_defect.spec; used by --replace-call-with-contract) */
#ifdef ITS_DECL_PRED
bool is_converged(SELF_T * self, const DataType def_cur)
__CPROVER_requires(__CPROVER_r_ok(self, sizeof(SELF_T)))
__CPROVER_assigns()
__CPROVER_ensures(__CPROVER_return_value == SPEC_CONVERGED(self, def_cur))
;
bool is_diverged(SELF_T * self, const DataType def_cur)
__CPROVER_requires(__CPROVER_r_ok(self, sizeof(SELF_T)))
__CPROVER_assigns()
__CPROVER_ensures(__CPROVER_return_value == SPEC_DIVERGED(self, def_cur))
;
#endif
/* the status the property statement prescribes for (num_iter, def_cur, def_prev, check_stag), as a specification function:
   aborted   iff the defect is not finite
   diverged  iff finite and above a divergence bound
   progress  if fewer than min_iter iterations were done
   success   iff the tolerances are met
   max_iter  iff the iteration limit is reached without convergence
   stagnated iff stagnation checking is on and this is the min_stag_iter-th consecutive iteration with def_cur >= stag_rate*def_prev */
/* stagnation bookkeeping is reached only when no other criterion fired */
#define STAG_ACTIVE (__CPROVER_isfinited(def_cur) && !SPEC_DIVERGED(self, def_cur) && num_iter >= self->_min_iter && !SPEC_CONVERGED(self, def_cur) && num_iter < self->_max_iter && check_stag && self->_min_stag_iter > 0)
#define SPEC_STAGNANT(s, dc, dp) ((dc) >= (s)->_stag_rate * (dp))
#define ANALYSE_ENSURES \
__CPROVER_ensures(!__CPROVER_isfinited(def_cur) ==> __CPROVER_return_value == Status_aborted) \
__CPROVER_ensures((__CPROVER_return_value == Status_aborted) ==> !__CPROVER_isfinited(def_cur)) \
__CPROVER_ensures((__CPROVER_return_value == Status_diverged) == (__CPROVER_isfinited(def_cur) && SPEC_DIVERGED(self, def_cur))) \
__CPROVER_ensures((__CPROVER_return_value == Status_success) == (__CPROVER_isfinited(def_cur) && !SPEC_DIVERGED(self, def_cur) && num_iter >= self->_min_iter && SPEC_CONVERGED(self, def_cur))) \
__CPROVER_ensures((__CPROVER_return_value == Status_max_iter) == (__CPROVER_isfinited(def_cur) && !SPEC_DIVERGED(self, def_cur) && num_iter >= self->_min_iter && !SPEC_CONVERGED(self, def_cur) && num_iter >= self->_max_iter)) \
__CPROVER_ensures((__CPROVER_return_value == Status_stagnated) ==> (check_stag && self->_min_stag_iter > 0 && SPEC_STAGNANT(self, def_cur, def_prev) && self->_num_stag_iter >= self->_min_stag_iter && num_iter < self->_max_iter && !SPEC_CONVERGED(self, def_cur))) \
__CPROVER_ensures(__CPROVER_return_value != Status_undefined) \
__CPROVER_ensures((__CPROVER_return_value == Status_progress && num_iter >= self->_min_iter) ==> (!SPEC_CONVERGED(self, def_cur) && !SPEC_DIVERGED(self, def_cur) && num_iter < self->_max_iter && __CPROVER_isfinited(def_cur))) \
__CPROVER_ensures((STAG_ACTIVE && SPEC_STAGNANT(self, def_cur, def_prev)) ==> self->_num_stag_iter == NSTAG_OLD + 1) \
__CPROVER_ensures((STAG_ACTIVE && !SPEC_STAGNANT(self, def_cur, def_prev)) ==> self->_num_stag_iter == 0) \
__CPROVER_ensures(!STAG_ACTIVE ==> self->_num_stag_iter == NSTAG_OLD) \
__CPROVER_ensures((STAG_ACTIVE && SPEC_STAGNANT(self, def_cur, def_prev) && NSTAG_OLD + 1 >= self->_min_stag_iter) ==> __CPROVER_return_value == Status_stagnated)
#ifdef ITS_DECL_ANALYSE
Index nstag_old;
#define NSTAG_OLD nstag_old
Status analyse_defect(SELF_T * self, Index num_iter, DataType def_cur, DataType def_prev, bool check_stag)
__CPROVER_requires(__CPROVER_rw_ok(self, sizeof(SELF_T)))
__CPROVER_requires(nstag_old == self->_num_stag_iter && nstag_old < 0xffffffffUL)
__CPROVER_assigns(self->_num_stag_iter)
ANALYSE_ENSURES
;
#endif
/* stagnation bookkeeping is reached only when no other criterion fired */
#endif
