/* Abstract C model of MemoryPool's std::map<void*, MemoryInfo> _pool (C20): tracks ONE arbitrary ghost address G exactly
 * (present?, counter, size) and answers nondeterministically for every other address.  Assumed contracts of std::map
 * find/insert/erase/end, ::malloc and ::free (trusted, listed in evidence). */
#ifndef VERIF_POOL_H
#define VERIF_POOL_H
void *malloc(size_t);
typedef struct { Index counter; Index size; } MemoryInfo;
typedef struct { bool found; MemoryInfo *second; void *key; } PoolIt;
void *G;                 /* the ghost address */
bool g_present;          /* G is a key of _pool */
MemoryInfo g_info;       /* its entry */
MemoryInfo other_info;   /* scratch entry for any other address (contents arbitrary) */
int n_free_G, n_free_other, n_malloc, n_erase_G;   /* event counters */
void *last_malloc; size_t last_malloc_size;
bool nondet_bool(void); Index nondet_Index(void);
static PoolIt POOL_find(void *a)
{
  PoolIt it; it.key = a;
  if(a == G) { it.found = g_present; it.second = &g_info; }
  else { it.found = nondet_bool(); other_info.counter = nondet_Index(); __CPROVER_assume(other_info.counter >= 1); it.second = &other_info; }
  return it;
}
static void POOL_erase(PoolIt it) { __CPROVER_assert(it.found, "erase of a valid iterator"); if(it.key == G) { g_present = false; ++n_erase_G; } }
static void POOL_insert(void *a, MemoryInfo mi) { if(a == G) { __CPROVER_assert(!g_present, "insert of a key that is not yet present (malloc returns fresh addresses)"); g_present = true; g_info = mi; } }
static void FREE_log(void *a) { if(a == G) ++n_free_G; else ++n_free_other; }
static void *MALLOC_log(size_t n) { ++n_malloc; last_malloc_size = n; last_malloc = nondet_bool() ? G : malloc(1); __CPROVER_assume(last_malloc != 0); if(last_malloc == G) __CPROVER_assume(!g_present); return last_malloc; }
#endif
