/* C view of LAFEM::Container ownership for the cross-type clone (C20): for the value arrays and the index arrays we record
 * whether they ALIAS the arrays of the source container `other` (shared, reference counted) or are private copies. */
#ifndef VERIF_CONTOBJ_H
#define VERIF_CONTOBJ_H
typedef enum { CloneMode_Shallow = 0, CloneMode_Layout, CloneMode_Weak, CloneMode_Deep, CloneMode_Allocate } CloneMode;
typedef struct { bool val_alias_other, idx_alias_other; bool initialised; Index size; } CONT;
typedef CONT SELF_T;
bool same_dt, same_it;     /* configuration: DT2_ == DT_, IT2_ == IT_ */
/* assumed contracts of the C++ pieces that are not extracted */
CONT CONT_make(Index size)
__CPROVER_assigns()
__CPROVER_ensures(__CPROVER_return_value.size == size && !__CPROVER_return_value.val_alias_other && !__CPROVER_return_value.idx_alias_other)
;
/* Container::assign(other): shares other's arrays (reference count + 1) when the types agree, converts into fresh arrays otherwise */
void CONT_assign(CONT * self, const CONT * other)
__CPROVER_requires(__CPROVER_rw_ok(self, sizeof(CONT)))
__CPROVER_assigns(*self)
__CPROVER_ensures(self->val_alias_other == same_dt && self->idx_alias_other == same_it && self->initialised)
;
/* Container::clone(src, mode) (same types): Shallow shares everything, Layout/Weak share the index arrays and get private value
   arrays, Deep/Allocate get private copies of everything */
void CONT_clone(CONT * self, const CONT * src, CloneMode mode)
__CPROVER_requires(__CPROVER_rw_ok(self, sizeof(CONT)) && __CPROVER_r_ok(src, sizeof(CONT)))
__CPROVER_assigns(*self)
__CPROVER_ensures(self->initialised && self->val_alias_other == (mode == CloneMode_Shallow && src->val_alias_other)
   && self->idx_alias_other == ((mode == CloneMode_Shallow || mode == CloneMode_Layout || mode == CloneMode_Weak) && src->idx_alias_other))
;
void CONT_move(CONT * self, CONT * src)
__CPROVER_requires(__CPROVER_rw_ok(self, sizeof(CONT)) && __CPROVER_r_ok(src, sizeof(CONT)))
__CPROVER_assigns(*self)
__CPROVER_ensures(self->initialised == src->initialised && self->val_alias_other == src->val_alias_other && self->idx_alias_other == src->idx_alias_other)
;
#endif
