/* C view of the Pack codec types (kernel/util/pack.hpp) and independent specification functions */
#ifndef VERIF_PACK_H
#define VERIF_PACK_H
typedef uint8_t u8; typedef uint16_t u16; typedef uint32_t u32; typedef uint64_t u64;
typedef int8_t i8; typedef int16_t i16; typedef int32_t i32; typedef int64_t i64;
typedef float f32; typedef double f64;
/* byte k (0 = least significant) of an unsigned value */
#define BYTE(v, k) ((u8)(((v) >> (8 * (k))) & 0xFF))
/* specification of byte reversal, formulated by assembling the bytes in reverse order (not by the mask/shift pattern of the code) */
#define SPEC_BSWAP16(v) ((u16)(((u16)BYTE(v, 0) << 8) | (u16)BYTE(v, 1)))
#define SPEC_BSWAP32(v) ((u32)(((u32)BYTE(v, 0) << 24) | ((u32)BYTE(v, 1) << 16) | ((u32)BYTE(v, 2) << 8) | (u32)BYTE(v, 3)))
#define SPEC_BSWAP64(v) ((u64)(((u64)BYTE(v, 0) << 56) | ((u64)BYTE(v, 1) << 48) | ((u64)BYTE(v, 2) << 40) | ((u64)BYTE(v, 3) << 32) | ((u64)BYTE(v, 4) << 24) | ((u64)BYTE(v, 5) << 16) | ((u64)BYTE(v, 6) << 8) | (u64)BYTE(v, 7)))
#endif
