/* "precond1": one-dimensional instantiation of the vector API for the stationary preconditioners' apply()/init_numeric().
 * A vector is one value (V1 = uint8_t); EVERY operation of the vector/matrix/filter API is an ARBITRARY function of its operands
 * (nondeterministic constant tables of unbounded size): the units decide WHICH operation is applied to WHICH operands in which
 * order, for every interpretation of the operations - the element-wise kernels behind them are the C01/C04/C06 units. */
#ifndef VERIF_PRECOND1_H
#define VERIF_PRECOND1_H
typedef uint8_t V1;
typedef uint8_t DataType;
typedef enum { Status_undefined = 0, Status_progress, Status_success, Status_aborted, Status_diverged, Status_max_iter, Status_stagnated } Status;
typedef struct {
  V1 A;                 /* the system matrix (identifies it) */
  V1 F;                 /* the filter */
  V1 _inv_diag, _diag;  /* member vectors */
  V1 _aux1, _aux2, _aux3;
  V1 _omega;
  V1 _vec_prim, _vec_dual, _volume, _sol_mean; bool prim_empty;   /* MeanFilter */
  Index _m;
  V1 x, b;              /* the vec_cor / vec_def arguments */
} SELF_T;
#define vec_cor (self->x)
#define vec_def (self->b)
#define UFTAB(n) extern const V1 n[__CPROVER_constant_infinity_uint]
UFTAB(T_CPROD); UFTAB(T_CINV); UFTAB(T_DIAG); UFTAB(T_MATAPP); UFTAB(T_FCOR); UFTAB(T_FDEF); UFTAB(T_SCALE); UFTAB(T_AXPY); UFTAB(T_ADD); UFTAB(T_DOT); UFTAB(T_DIV);
#define UF1(T, a)    (T[(unsigned)(V1)(a)])
#define UF2(T, a, b) (T[((unsigned)(V1)(a) << 8) | (unsigned)(V1)(b)])
#define UF3(T, a, b, c) (T[((unsigned)(V1)(a) << 16) | ((unsigned)(V1)(b) << 8) | (unsigned)(V1)(c)])
#define CPROD(a, b)   UF2(T_CPROD, a, b)      /* r.component_product(a, b): r_i = a_i * b_i                (C04 component_product) */
#define CINV(a, s)    UF2(T_CINV, a, s)       /* r.component_invert(a, s):  r_i = s / a_i                  (C04 component_invert) */
#define DIAG(A)       UF1(T_DIAG, A)          /* matrix.extract_diag(d)                                                            */
#define MATAPP(A, x)  UF2(T_MATAPP, A, x)     /* matrix.apply(r, x): r = A x                               (C01)                   */
#define FCOR(F, v)    UF2(T_FCOR, F, v)       /* filter.filter_cor(v)                                      (C06)                   */
#define FDEF(F, v)    UF2(T_FDEF, F, v)       /* filter.filter_def(v)                                      (C06)                   */
#define SCALE(x, s)   UF2(T_SCALE, x, s)      /* r.scale(x, s): r = s x                                    (C04 scale)             */
#define AXPY(r, x, s) UF3(T_AXPY, r, x, s)    /* r.axpy(x, s): r = r + s x                                 (C04 axpy)              */
#define ADD(r, x)     UF2(T_ADD, r, x)        /* r.axpy(x):    r = r + x                                                           */
#define DOT(a, b)     UF2(T_DOT, a, b)        /* a.dot(b)                                                  (C04 dot)               */
#define DIVT(a, b)    UF2(T_DIV, a, b)        /* scalar quotient a / b (any division)                                              */
#endif
