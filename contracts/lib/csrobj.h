/* C view of SparseMatrixCSR / DenseVector OBJECTS for method-level contracts of the apply wrappers (C01):
 * shapes, array identities (as abstract ids) and a ghost record of the kernel / vector calls the method makes. */
#ifndef VERIF_CSROBJ_H
#define VERIF_CSROBJ_H
typedef double DT_;
typedef struct { Index size; const void *elements; } DVEC;              /* also DenseVectorBlocked: size() in blocks, elements identity */
              /* DenseVector: size() and elements() identity */
typedef struct { Index rows, columns, nnz; const void *val, *col_ind, *row_ptr; } CSRM;
typedef CSRM SELF_T;
/* ghost record of what the method did */
int n_kernel, n_copy, n_format;
const void *k_r, *k_x, *k_y, *k_val, *k_ci, *k_rp; DT_ k_a, k_b; Index k_rows, k_cols, k_nnz; bool k_transposed;
const DVEC *c_dst, *c_src, *f_dst;
#define EPS 2.220446049250313080847263336181640625e-16
/* the CSR kernel: its contract (csr_generic_n/_t.spec) needs valid sizes and, for the transposed arm, |a| >= eps */
void Apply_csr(const void * r, const DT_ a, const void * const x, const DT_ b, const void * const y, const void * const val,
  const void * const col_ind, const void * const row_ptr, const Index rows, const Index columns, const Index used_elements, const bool transposed)
__CPROVER_requires(!transposed || __CPROVER_fabs(a) >= EPS)      /* precondition of the transposed kernel arm (division b/a) */
__CPROVER_requires(r != x)
__CPROVER_assigns(n_kernel, k_r, k_x, k_y, k_val, k_ci, k_rp, k_a, k_b, k_rows, k_cols, k_nnz, k_transposed)
__CPROVER_ensures(n_kernel == __CPROVER_old(n_kernel) + 1 && k_r == r && k_x == x && k_y == y && k_val == val && k_ci == col_ind && k_rp == row_ptr
                  && k_a == a && k_b == b && k_rows == rows && k_cols == columns && k_nnz == used_elements && k_transposed == transposed)
;
/* the BCSR kernels (block sizes are template parameters of the dispatcher call; the transposed kernel divides by a) */
void Apply_bcsr(const void * r, const DT_ a, const void * const x, const DT_ b, const void * const y, const void * const val,
  const void * const col_ind, const void * const row_ptr, const Index rows, const Index columns, const Index used_elements)
__CPROVER_requires(r != x)
__CPROVER_assigns(n_kernel, k_r, k_x, k_y, k_val, k_ci, k_rp, k_a, k_b, k_rows, k_cols, k_nnz, k_transposed)
__CPROVER_ensures(n_kernel == __CPROVER_old(n_kernel) + 1 && k_r == r && k_x == x && k_y == y && k_val == val && k_ci == col_ind && k_rp == row_ptr
                  && k_a == a && k_b == b && k_rows == rows && k_cols == columns && k_nnz == used_elements && k_transposed == 0)
;
void Apply_bcsr_transposed(const void * r, const DT_ a, const void * const x, const DT_ b, const void * const y, const void * const val,
  const void * const col_ind, const void * const row_ptr, const Index rows, const Index columns, const Index used_elements)
__CPROVER_requires(__CPROVER_fabs(a) >= EPS)      /* precondition of the transposed block kernel (it computes b/a) */
__CPROVER_requires(r != x)
__CPROVER_assigns(n_kernel, k_r, k_x, k_y, k_val, k_ci, k_rp, k_a, k_b, k_rows, k_cols, k_nnz, k_transposed)
__CPROVER_ensures(n_kernel == __CPROVER_old(n_kernel) + 1 && k_r == r && k_x == x && k_y == y && k_val == val && k_ci == col_ind && k_rp == row_ptr
                  && k_a == a && k_b == b && k_rows == rows && k_cols == columns && k_nnz == used_elements && k_transposed == 1)
;
void DV_copy(DVEC * dst, const DVEC * src)
__CPROVER_assigns(n_copy, c_dst, c_src)
__CPROVER_ensures(n_copy == __CPROVER_old(n_copy) + 1 && c_dst == dst && c_src == src)
;
void DV_format(DVEC * dst)
__CPROVER_assigns(n_format, f_dst)
__CPROVER_ensures(n_format == __CPROVER_old(n_format) + 1 && f_dst == dst)
;
#endif
