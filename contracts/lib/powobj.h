/* C view for method-level contracts of the first/rest meta matrices (C01): sub-vector ranges of a DenseVector and a ghost
 * record of which product (plain / transposed) of which component was invoked on which ranges. */
#ifndef VERIF_POWOBJ_H
#define VERIF_POWOBJ_H
typedef double DataType;
typedef struct { int base; Index size; Index offset; } DVS;      /* a DenseVector or a range of one: base identifies the underlying vector */
typedef int SELF_T;
Index FIRST_rows, FIRST_columns, REST_rows, REST_columns;         /* shapes of first() and rest() */
/* ghost record: one call each is expected */
int nf, nr; bool f_transposed, r_transposed; DVS f_r, f_x, f_y, r_r, r_x, r_y; DataType f_alpha, r_alpha;
#define SAMEV(a, b) ((a).base == (b).base && (a).size == (b).size && (a).offset == (b).offset)
static DVS DV_range(DVS v, Index size, Index offset) { DVS s; s.base = v.base; s.size = size; s.offset = v.offset + offset; __CPROVER_assert(offset + size <= v.size, "sub-vector range inside the vector"); return s; }
static void FIRST_apply(DVS r, DVS x, DVS y, DataType a)   { __CPROVER_assert(r.size == FIRST_rows && x.size == FIRST_columns && y.size == FIRST_rows, "first().apply: vector sizes match"); ++nf; f_transposed = 0; f_r = r; f_x = x; f_y = y; f_alpha = a; }
static void FIRST_apply_t(DVS r, DVS x, DVS y, DataType a) { __CPROVER_assert(r.size == FIRST_columns && x.size == FIRST_rows && y.size == FIRST_columns, "first().apply_transposed: vector sizes match"); ++nf; f_transposed = 1; f_r = r; f_x = x; f_y = y; f_alpha = a; }
static void REST_apply(DVS r, DVS x, DVS y, DataType a)    { __CPROVER_assert(r.size == REST_rows && x.size == REST_columns && y.size == REST_rows, "rest().apply: vector sizes match"); ++nr; r_transposed = 0; r_r = r; r_x = x; r_y = y; r_alpha = a; }
static void REST_apply_t(DVS r, DVS x, DVS y, DataType a)  { __CPROVER_assert(r.size == REST_columns && x.size == REST_rows && y.size == REST_columns, "rest().apply_transposed: vector sizes match"); ++nr; r_transposed = 1; r_r = r; r_x = x; r_y = y; r_alpha = a; }
#endif
