/* shared boilerplate for harnesses */
#ifndef VERIF_COMMON_H
#define VERIF_COMMON_H
#ifndef NMAX
#define NMAX 0x3fffffffUL
#endif
Index nondet_Index(void);
#ifdef REACH_PROBE_ON
#define REACH_END() __CPROVER_assert(0, "reach_end")
#else
#define REACH_END() ((void)0)
#endif
/* NaN-aware equality for floating instantiations */
#ifdef FEAT_FP
#define SAME(a, b) ((a) == (b) || ((a) != (a) && (b) != (b)))
#else
#define SAME(a, b) ((a) == (b))
#endif
#endif
