/* Contracts of the MemoryPool helpers that extracted kernels call (rule R7).
 * They are *proved* against the generic arms cut from kernel/util/memory_pool.hpp by
 * contracts/C01/mp_set_memory.spec and mp_copy.spec, which use the very same MP_*_ENSURES /
 * MP_*_ASSIGNS macros; callers see only these contracts (goto-instrument
 * --replace-call-with-contract).  gmk is a ghost (Skolem) index: the contracts hold for every
 * value of gmk, callers instantiate it with their own ghost index. */
#ifndef VERIF_MEMORY_POOL_H
#define VERIF_MEMORY_POOL_H
#ifndef NMAX
#define NMAX 0x3fffffffUL
#endif
Index gmk, gmk2;   /* two independent ghost (Skolem) indices: callers may need the callee's postcondition at two places */
/* element equality that is also true for two NaNs (so that an assumed ensures never excludes NaN data) */
#ifdef FEAT_FP
#define MP_SAME(a, b) ((a) == (b) || ((a) != (a) && (b) != (b)))
#else
#define MP_SAME(a, b) ((a) == (b))
#endif
#define MP_SET_ENSURES  __CPROVER_ensures(gmk < count ==> MP_SAME(address[gmk], val)) __CPROVER_ensures(gmk2 < count ==> MP_SAME(address[gmk2], val))
#define MP_COPY_ENSURES __CPROVER_ensures((dest != src && gmk < count) ==> MP_SAME(dest[gmk], src[gmk])) __CPROVER_ensures((dest != src && gmk2 < count) ==> MP_SAME(dest[gmk2], src[gmk2]))

#ifndef MP_NO_DECL
void MemoryPool_set_memory(DT_ * address, const DT_ val, const Index count)
__CPROVER_requires(count <= NMAX)
__CPROVER_requires(count == 0 || __CPROVER_w_ok(address, count * sizeof(DT_)))
__CPROVER_assigns(count != 0 : __CPROVER_object_upto(address, count * sizeof(DT_)))
MP_SET_ENSURES
;

void MemoryPool_copy(DT_ * dest, const DT_ * src, const Index count)
__CPROVER_requires(count <= NMAX)
__CPROVER_requires(dest == src || count == 0 || (__CPROVER_w_ok(dest, count * sizeof(DT_)) && __CPROVER_r_ok(src, count * sizeof(DT_)) && !__CPROVER_same_object(dest, src)))
__CPROVER_assigns(dest != src && count != 0 : __CPROVER_object_upto(dest, count * sizeof(DT_)))
MP_COPY_ENSURES
;

#ifdef VERIF_BOUNDED
/* bodies used only by the bounded counterexample search (never by a proof): direct models of the contracts above */
void MemoryPool_set_memory(DT_ * address, const DT_ val, const Index count) { for(Index i = 0; i < count; ++i) address[i] = val; }
void MemoryPool_copy(DT_ * dest, const DT_ * src, const Index count) { if(dest == src) return; for(Index i = 0; i < count; ++i) dest[i] = src[i]; }
#endif
#endif
#endif
