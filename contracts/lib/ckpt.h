/* Abstract byte buffer for the checkpoint size bookkeeping of LAFEM meta containers (C05): std::vector<char> is modelled by its
 * size plus the 8 header bytes written at one tracked offset; the component calls are assumed contracts:
 * "appends exactly as many bytes as it returns". */
#ifndef VERIF_CKPT_H
#define VERIF_CKPT_H
typedef struct { uint64_t n; uint64_t hdr_off; unsigned char hdr[8]; int hdr_writes; } BUF;
typedef int SELF_T;
uint64_t n_first, n_rest;          /* ghost: what the two component calls will return/append */
int calls_first, calls_rest; uint64_t size_at_first, size_at_rest;
static void BUF_append_zeros(BUF *b, uint64_t k) { b->hdr_off = b->n; for(int i = 0; i < 8; ++i) b->hdr[i] = 0; b->n += k; }
static void BUF_set(BUF *b, uint64_t pos, char c) { __CPROVER_assert(pos >= b->hdr_off && pos < b->hdr_off + 8 && pos < b->n, "header byte written inside the placeholder"); b->hdr[(pos - b->hdr_off) & 7] = (unsigned char)c; ++b->hdr_writes; }
static uint64_t FIRST_set(BUF *b) { ++calls_first; size_at_first = b->n; b->n += n_first; return n_first; }
static uint64_t REST_set(BUF *b) { ++calls_rest; size_at_rest = b->n; b->n += n_rest; return n_rest; }
#endif
