/* "krylov1": one-dimensional instantiation of the LAFEM vector / matrix / filter API for the bodies of the Krylov and
 * defect-correction solvers (see krylov1.rules).
 *   vectors, the system matrix A and the filters Fd/Fc are elements of the commutative ring Z/2^4 (exact ring arithmetic:
 *     linearity of A and of the filters, which the defect recurrences r -= alpha*A*p rely on, is what the ring provides;
 *     4 bits because SAT does not decide the 3-fold product identities at 8 bits - measured: 4 bits 1.4 s, 5 bits 74 s,
 *     8 bits > 600 s);
 *   the preconditioner, the dot product, the norm, every division and isfinite are ARBITRARY functions of their
 *     operands (nondeterministic constant tables of unbounded size), so the proofs hold for every preconditioner and
 *     every value the scalar recurrences may take (including inf/NaN quotients). */
#ifndef VERIF_KRYLOV1_H
#define VERIF_KRYLOV1_H
typedef unsigned __CPROVER_bitvector[4] V1;
typedef V1 DataType;
typedef enum { Status_undefined = 0, Status_progress, Status_success, Status_aborted, Status_diverged, Status_max_iter, Status_stagnated } Status;
typedef enum { BiCGStabPreconVariant_left = 0, BiCGStabPreconVariant_right } BiCGStabPreconVariant;
typedef struct {
  V1 A, Fd, Fc;                 /* system matrix, defect filter, correction filter */
  bool has_precond;             /* _precond != nullptr */
  V1 M;                         /* identifies the preconditioner (its action is the table PRECTAB[M][.]) */
  V1 x, b;                      /* the vec_sol / vec_rhs (vec_cor / vec_def) arguments of apply/correct/_apply_intern */
  /* member vectors of the solvers (superset) */
  V1 _vec_r, _vec_p, _vec_t, _vec_q, _vec_s, _vec_z, _vec_y, _vec_def, _vec_cor;
  V1 _vec_r_tilde, _vec_r_hat_0, _vec_p_tilde, _vec_t_tilde, _vec_q_tilde, _vec_tmp;
  V1 _vec_u, _vec_w, _vec_m, _vec_n, _vec_S, _vec_Z, _vec_v, _vec_vh, _vec_th, _vec_r0;
  V1 At;                        /* PCGNR: the transposed matrix (any ring element) */
  V1 _omega, _min_ev, _max_ev;
  BiCGStabPreconVariant _precon_variant;
  Status _status;
  V1 _def_cur, _def_prev; Index _num_iter;   /* convergence-control state touched directly by BiCGStab's half step */
} SELF_T;
#define vec_sol (self->x)
#define vec_rhs (self->b)
#ifdef KRY_WRAPPER     /* apply(vec_cor, vec_def): the same two argument vectors under their other names */
#define vec_cor (self->x)
#define vec_def (self->b)
#endif
extern const V1 PRECTAB[__CPROVER_constant_infinity_uint], DOTTAB[__CPROVER_constant_infinity_uint],
  DIVTAB[__CPROVER_constant_infinity_uint], NORMTAB[__CPROVER_constant_infinity_uint];
extern const V1 PRECLTAB[__CPROVER_constant_infinity_uint], PRECRTAB[__CPROVER_constant_infinity_uint];
extern const bool FINTAB[__CPROVER_constant_infinity_uint], DIVGTAB[__CPROVER_constant_infinity_uint], CONVTAB[__CPROVER_constant_infinity_uint];
#define UF2(T, a, b) (T[((unsigned)(V1)(a) << 4) | (unsigned)(V1)(b)])
#define APP(M, x)   ((V1)((M) * (x)))
#define SMUL(a, v)  ((V1)((a) * (v)))
#define DOT(a, b)   UF2(DOTTAB, a, b)
#define DIVT(a, b)  UF2(DIVTAB, a, b)
#define NORM(a)     (NORMTAB[(unsigned)(V1)(a)])
#define FEAT_isfinite(a) (FINTAB[(unsigned)(V1)(a)])
/* result of _apply_precond(dst, src, filter) (iterative.hpp): the preconditioner if there is one, else the filtered copy */
#define PRECOND(src) (self->has_precond ? UF2(PRECTAB, self->M, src) : APP(self->Fc, src))
#define PRECOND_L(src) (UF2(PRECLTAB, self->M, src))
#define PRECOND_R(src) (UF2(PRECRTAB, self->M, src))
#define IS_DIVERGED(d)  (DIVGTAB[(unsigned)(V1)(d)])
#define IS_CONVERGED(d) (CONVTAB[(unsigned)(V1)(d)])
/* ghost state */
V1 kry_x0, kry_r0;                 /* solution and defect vector on entry of _apply_intern */
V1 rep_x, rep_d; Status rep_st; bool reported;   /* last defect report (_set_initial_defect/_set_new_defect): solution, defect, status returned; whether any report happened */
bool prec_failed;                  /* some preconditioner application reported failure */
/* the defect that belongs to solution x: initial defect minus Fd A (x - x0)  [== Fd (b - A x) when r0 == Fd (b - A x0), lemma unit krylov_true_defect] */
#ifdef KRY_DIRECT   /* solvers that recompute the defect from the right-hand side */
#define TRUE_DEF(xx) (APP(self->Fd, (V1)(self->b - APP(self->A, (xx)))))
#else
#define TRUE_DEF(xx) ((V1)(kry_r0 - APP(self->Fd, APP(self->A, (V1)((xx) - kry_x0)))))
#endif
#ifdef KRY_DECL_INTERN
/* callee contract of _apply_intern as seen from apply()/correct(): records the state it is entered with and its return value;
 * its frame (the right-hand side argument is not written) is the assigns clause proved by the solver's *_apply_intern unit */
V1 ai_x, ai_r; Status ai_ret; bool ai_called;
Status apply_intern(SELF_T * self)
__CPROVER_requires(__CPROVER_rw_ok(self, sizeof(SELF_T)))
__CPROVER_requires(!ai_called)
__CPROVER_assigns(__CPROVER_object_whole(self), ai_x, ai_r, ai_ret, ai_called)
__CPROVER_ensures(ai_called && ai_x == __CPROVER_old(self->x) && ai_r == __CPROVER_old(self->KRY_RVEC) && ai_ret == __CPROVER_return_value)
__CPROVER_ensures(self->b == __CPROVER_old(self->b) && self->A == __CPROVER_old(self->A) && self->Fd == __CPROVER_old(self->Fd))
;
#endif
#ifdef KRY_DECL_CALLEES
/* assumed callee contracts. _set_initial_defect/_set_new_defect are under contract for the status they compute in
 * contracts/C07/set_initial_defect.spec / update_defect.spec; here the REQUIRES clause carries the obligation that the
 * solver only ever reports the defect that belongs to the solution it reports. */
Status set_initial_defect(SELF_T * self, V1 d, V1 xx)
__CPROVER_requires(__CPROVER_rw_ok(self, sizeof(SELF_T)))
__CPROVER_requires(d == TRUE_DEF(xx))
__CPROVER_assigns(rep_x, rep_d, rep_st, reported, self->_num_iter)
__CPROVER_ensures(rep_x == xx && rep_d == d && rep_st == __CPROVER_return_value && reported)
__CPROVER_ensures(__CPROVER_return_value != Status_undefined && self->_num_iter == 0)
;
Status set_new_defect(SELF_T * self, V1 d, V1 xx)
__CPROVER_requires(__CPROVER_rw_ok(self, sizeof(SELF_T)))
__CPROVER_requires(d == TRUE_DEF(xx))
__CPROVER_requires(reported)   /* the initial defect was set before */
__CPROVER_assigns(rep_x, rep_d, rep_st, reported, self->_num_iter)
__CPROVER_ensures(rep_x == xx && rep_d == d && rep_st == __CPROVER_return_value && reported)
__CPROVER_ensures(__CPROVER_return_value != Status_undefined && self->_num_iter == (Index)(__CPROVER_old(self->_num_iter) + 1))
;
/* _update_defect(norm): the solver passes the norm of the defect of the CURRENT solution */
Status update_defect(SELF_T * self, V1 nrm)
__CPROVER_requires(__CPROVER_rw_ok(self, sizeof(SELF_T)))
__CPROVER_requires(nrm == NORM(TRUE_DEF(self->x)))
__CPROVER_requires(reported)
__CPROVER_assigns(rep_x, rep_d, rep_st, reported, self->_num_iter)
__CPROVER_ensures(rep_x == self->x && rep_d == TRUE_DEF(self->x) && rep_st == __CPROVER_return_value && reported)
__CPROVER_ensures(__CPROVER_return_value != Status_undefined && self->_num_iter == (Index)(__CPROVER_old(self->_num_iter) + 1))
;
bool precond_ok(SELF_T * self)
__CPROVER_requires(__CPROVER_rw_ok(self, sizeof(SELF_T)))
__CPROVER_assigns(prec_failed)
__CPROVER_ensures(__CPROVER_return_value ? prec_failed == __CPROVER_old(prec_failed) : prec_failed)
__CPROVER_ensures(!self->has_precond ==> __CPROVER_return_value)
;
#endif
#endif
