typedef TYPE T;
int main(){ T a,b,x; T c=a; T d=b; T p; T q;
 p = a*b; q = c*d; int r1 = x <= p; int r2 = x <= q; __CPROVER_assert(r1==r2,"eq"); }
