import re,sys
def cut_function(src, sig_regex):
    m=re.search(sig_regex, src)
    assert m, "signature not found"
    # back up to template header
    tstart=src.rfind('template', 0, m.start())
    i=src.index('{', m.end()); depth=0; j=i
    while True:
        c=src[j]
        if c=='{': depth+=1
        elif c=='}':
            depth-=1
            if depth==0: break
        j+=1
    return src[tstart:j+1]
def strip_comments(s):
    s=re.sub(r'/\*.*?\*/', lambda m: ' '*0, s, flags=re.S)
    s=re.sub(r'//[^\n]*', '', s)
    return s
SCALARS=['Index','IT_','DT_','int','bool']
def rewrite(fn, hits):
    def sub(rule, pat, rep, s, flags=0):
        s2,n=re.subn(pat, rep, s, flags=flags); hits[rule]=hits.get(rule,0)+n; return s2
    s=strip_comments(fn)
    s=sub('R1', r'^\s*template\s*<[^>]*>\s*', '', s)
    s=sub('R2', r'\b[A-Z]\w*::(\w+_generic)\s*\(', r'\1(', s)
    T='|'.join(SCALARS)
    # R3 direct-init declarations: "T name(expr)" at start of statement or for-init
    s=sub('R3', r'(?<![\w:])((?:const\s+)?(?:%s))\s+(\w+)\s*\(((?:[^()]|\([^()]*\))*)\)\s*(?=[;)])'%T, r'\1 \2 = (\3)', s)
    # R4 functional casts T(expr)
    for _ in range(3):
        s=sub('R4', r'(?<![\w:])(%s)\s*\(((?:[^()]|\([^()]*\))*)\)'%'|'.join(['Index','IT_','DT_']), r'((\1)(\2))', s)
    s=sub('R6', r'Math::(abs|min|max|sqr|sqrt|isnan|isfinite)\s*\(', r'FEAT_\1(', s)
    s=sub('R6e', r'Math::eps<DT_>\(\)', 'FEAT_eps', s)
    s=sub('R7', r'MemoryPool::(set_memory|copy)\s*\(', r'MemoryPool_\1(', s)
    n=[0]
    def nm(m):
        n[0]+=1; return '%s _u%d%s'%(m.group(1), n[0], m.group(2))
    s=sub('R8', r'(const\s+Index)\s*([,)])', nm, s)
    return s
src=open('/repo/kernel/lafem/arch/apply_generic.hpp').read()
hits={}
fn=cut_function(src, r'void\s+Apply::csr_generic\s*\(')
out=rewrite(fn,hits)
print(out); print('/* hits:',hits,'*/')
