#include <kernel/base_header.hpp>
#include <kernel/lafem/arch/apply.hpp>
#include <kernel/backend.hpp>
#include <cstdio>
using namespace FEAT;
int main(){
  double val[3]={1,2,3}; unsigned ci[3]={0,1,0}; unsigned rp[3]={0,2,3}; double x[2]={1,1}; double y[2]={10,20}; double r[2];
  LAFEM::Arch::Apply::csr_generic<double,unsigned>(r, 2.0, x, 1.0, y, val, ci, rp, 2, 2, 3, false);
  std::printf("%g %g\n", r[0], r[1]);
  return 0;
}
