#include <math.h>
#include <stdbool.h>
typedef unsigned long Index; typedef double DataType;
typedef enum { Status_undefined=0, Status_progress, Status_success, Status_aborted, Status_diverged, Status_max_iter, Status_stagnated } Status;
struct Self { DataType _tol_rel,_tol_abs,_tol_abs_low,_div_rel,_div_abs,_stag_rate,_def_init; Index _min_iter,_max_iter,_min_stag_iter,_num_stag_iter; };
static bool is_converged(const struct Self* self, const DataType def_cur) { return (def_cur <= self->_tol_abs) && ((def_cur <= (self->_tol_rel * self->_def_init)) || (def_cur <= self->_tol_abs_low)); }
static bool is_diverged(const struct Self* self, const DataType def_cur) { return (def_cur > self->_div_abs) || (def_cur > (self->_div_rel * self->_def_init)); }
Status _analyse_defect(struct Self* self, Index num_iter, DataType def_cur, DataType def_prev, bool check_stag)
{
        if(!isfinite(def_cur))
          return Status_aborted;
        if(is_diverged(self, def_cur))
          return Status_diverged;
        if(num_iter < self->_min_iter)
          return Status_progress;
        if(is_converged(self, def_cur))
          return Status_success;
        if(num_iter >= self->_max_iter)
          return Status_max_iter;
        if(check_stag && (self->_min_stag_iter > (Index)(0)))
        {
          if(def_cur >= self->_stag_rate * def_prev)
          {
            if(++self->_num_stag_iter >= self->_min_stag_iter)
              return Status_stagnated;
          }
          else
          {
            self->_num_stag_iter = (Index)(0);
          }
        }
        return Status_progress;
}
void harness(void) {
  struct Self s; Index n; DataType dc, dp; bool cs;
  struct Self s0 = s;
  Status st = _analyse_defect(&s, n, dc, dp, cs);
  if(st == Status_success) {
    __CPROVER_assert(isfinite(dc), "success => finite");
    __CPROVER_assert(dc <= s0._tol_abs, "success => abs tol");
    __CPROVER_assert(dc <= s0._tol_rel*s0._def_init || dc <= s0._tol_abs_low, "success => rel tol");
    __CPROVER_assert(n >= s0._min_iter, "success => min iter");
    __CPROVER_assert(!(dc > s0._div_abs), "success => not diverged");
  }
  if(st == Status_max_iter) __CPROVER_assert(n >= s0._max_iter && !(dc <= s0._tol_abs && (dc <= s0._tol_rel*s0._def_init || dc <= s0._tol_abs_low)), "maxiter truthful");
  if(st == Status_stagnated) __CPROVER_assert(cs && dc >= s0._stag_rate*dp && s._num_stag_iter >= s0._min_stag_iter, "stag truthful");
  __CPROVER_assert(st != Status_undefined, "defined");
}
