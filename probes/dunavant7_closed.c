double W[13], X[13][2];
static int fill_sym1(int off, double w, double x0){ W[off]=w; X[off][0]=x0; X[off][1]=x0; return 1; }
static int fill_sym2(int off, double w, double x0, double x1){ W[off]=w; X[off][0]=x0; X[off][1]=x1; W[++off]=w; X[off][0]=x1; X[off][1]=x0; W[++off]=w; X[off][0]=x1; X[off][1]=x1; return 3; }
static int fill_sym3(int off, double w, double x0, double x1, double x2){
  W[off]=w; X[off][0]=x0; X[off][1]=x1; W[++off]=w; X[off][0]=x1; X[off][1]=x0; W[++off]=w; X[off][0]=x2; X[off][1]=x0;
  W[++off]=w; X[off][0]=x0; X[off][1]=x2; W[++off]=w; X[off][0]=x1; X[off][1]=x2; W[++off]=w; X[off][0]=x2; X[off][1]=x1; return 6; }
static double fabs_(double x){ return x<0?-x:x; }
int main(){
  int off=0;
  off += fill_sym1(off, (double)(CW), (double)(0.333333333333333));
  off += fill_sym2(off, (double)(0.0878076287166040), (double)(0.479308067841920), (double)(0.260345966079040));
  off += fill_sym2(off, (double)(0.0266736178044190), (double)(0.869739794195568), (double)(0.065130102902216));
  off += fill_sym3(off, (double)(0.0385568804451285), (double)(0.048690315425316), (double)(0.312865496004874), (double)(0.638444188569810));
  __CPROVER_assert(off==13,"count");
  for(int a=0;a<=7;a++) for(int b=0;a+b<=7;b++){
    double s=0; for(int i=0;i<13;i++){ double t=W[i]; for(int k=0;k<a;k++) t*=X[i][0]; for(int k=0;k<b;k++) t*=X[i][1]; s+=t; }
    double ex=1.0; /* a! b! / (a+b+2)! */
    for(int k=2;k<=a;k++) ex*=k; for(int k=2;k<=b;k++) ex*=k; for(int k=2;k<=a+b+2;k++) ex/=k;
    __CPROVER_assert(fabs_(s-ex) <= 5e-13, "monomial exact");
  }
}
