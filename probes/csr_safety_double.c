#include <stddef.h>
#include <stdint.h>
typedef uint64_t Index;
typedef double DT_;
typedef uint32_t IT_;
#define NMAX 100000
Index g_nnz, g_columns; 
#define RD_col_ind(e) (__CPROVER_assume(!((e) < g_nnz) || col_ind[e] < g_columns), col_ind[e])
#define RD_row_ptr(e) (__CPROVER_assume(!((e) < rows) || (row_ptr[e] <= row_ptr[(e)+1])), __CPROVER_assume(!((e) <= rows) || (row_ptr[e] <= g_nnz)), row_ptr[e])

void csr_apply(DT_ * r, const DT_ a, const DT_ * const x, const DT_ b, const DT_ * const val,
   const IT_ * const col_ind, const IT_ * const row_ptr, const Index rows, const Index columns, const Index nnz)
__CPROVER_requires(rows <= NMAX && columns <= NMAX && nnz <= NMAX && g_nnz == nnz && g_columns == columns)
__CPROVER_requires(__CPROVER_is_fresh(r, rows*sizeof(DT_)))
__CPROVER_requires(__CPROVER_is_fresh(x, columns*sizeof(DT_)))
__CPROVER_requires(__CPROVER_is_fresh(val, nnz*sizeof(DT_)))
__CPROVER_requires(__CPROVER_is_fresh(col_ind, nnz*sizeof(IT_)))
__CPROVER_requires(__CPROVER_is_fresh(row_ptr, (rows+1)*sizeof(IT_)))
__CPROVER_assigns(__CPROVER_object_whole(r))
{
  for (Index row = 0 ; row < rows ; ++row)
  __CPROVER_assigns(row, __CPROVER_object_whole(r))
  __CPROVER_loop_invariant(row <= rows)
  __CPROVER_decreases(rows - row)
  {
    DT_ sum = 0;
    const IT_ end = RD_row_ptr(row + 1);
    for (IT_ i = RD_row_ptr(row) ; i < end ; ++i)
    __CPROVER_assigns(i, sum)
    __CPROVER_loop_invariant(row_ptr[row] <= i && i <= end)
    __CPROVER_decreases(end - i)
    {
      sum += val[i] * x[RD_col_ind(i)];
    }
    r[row] = (sum * a) + (b * r[row]);
  }
}
void harness(void){ DT_ *r,*x,*val; IT_ *ci,*rp; DT_ a,b; Index rows,cols,nnz; csr_apply(r,a,x,b,val,ci,rp,rows,cols,nnz); }
