#include <stdint.h>
#include <stdbool.h>
typedef uint64_t Index; typedef uint8_t DT_; typedef uint32_t IT_;
#define FEAT_abs(x) ((x) < 0 ? -(x) : (x))
#define FEAT_eps 0
static void MemoryPool_set_memory(DT_* a, DT_ v, Index n){ for(Index i=0;i<n;++i) a[i]=v; }
static void MemoryPool_copy(DT_* d, const DT_* s, Index n){ if(d==s) return; for(Index i=0;i<n;++i) d[i]=s[i]; }
#include "csr_m.c"
#define N 3
#define NNZ 4
DT_ in_val[NNZ], in_x[N], in_y[N], out_r[N]; IT_ in_ci[NNZ], in_rp[N+1]; DT_ in_a, in_b; Index in_rows, in_cols;
void harness(void){
  Index rows, cols; __CPROVER_assume(rows<=N && cols<=N);
  __CPROVER_assume(in_rp[0]==0); for(int k=0;k<N;k++) __CPROVER_assume(k>=rows || (in_rp[k]<=in_rp[k+1] && in_rp[k+1]<=NNZ));
  for(int k=0;k<NNZ;k++) __CPROVER_assume(in_ci[k]<cols);
  in_rows=rows; in_cols=cols;
  for(int k=0;k<N;k++) out_r[k]=in_y[k];
  csr_generic(out_r, in_a, in_x, in_b, in_y, in_val, in_ci, in_rp, rows, cols, in_rp[rows], false);
  for(Index k=0;k<N;k++) if(k<rows){ DT_ s=0; for(IT_ i=in_rp[k]; i<in_rp[k+1]; ++i) s=(DT_)(s+in_val[i]*in_x[in_ci[i]]); __CPROVER_assert(out_r[k]==(DT_)(s*in_a+in_b*in_y[k]), "row product"); }
}
