#include <stddef.h>
#include <stdint.h>
typedef uint64_t Index;
typedef uint32_t DT_;   /* ring Z/2^32 */
typedef uint32_t IT_;
#define NMAX 1000

void csr_apply(DT_ * r, const DT_ a, const DT_ * const x, const DT_ b, const DT_ * const val,
   const IT_ * const col_ind, const IT_ * const row_ptr, const Index rows, const Index columns, const Index nnz,
   const DT_ * const S /* ghost prefix sums */, const DT_* const r0)
__CPROVER_requires(rows <= NMAX && columns <= NMAX && nnz <= NMAX)
__CPROVER_requires(__CPROVER_is_fresh(r, rows*sizeof(DT_)))
__CPROVER_requires(__CPROVER_is_fresh(r0, rows*sizeof(DT_)))
__CPROVER_requires(__CPROVER_is_fresh(x, columns*sizeof(DT_)))
__CPROVER_requires(__CPROVER_is_fresh(val, nnz*sizeof(DT_)))
__CPROVER_requires(__CPROVER_is_fresh(col_ind, nnz*sizeof(IT_)))
__CPROVER_requires(__CPROVER_is_fresh(row_ptr, (rows+1)*sizeof(IT_)))
__CPROVER_requires(__CPROVER_is_fresh(S, (nnz+1)*sizeof(DT_)))
__CPROVER_requires(row_ptr[0] == 0 && row_ptr[rows] == nnz)
__CPROVER_requires(__CPROVER_forall { Index k1; (k1 < rows) ==> row_ptr[k1] <= row_ptr[k1+1] })
__CPROVER_requires(__CPROVER_forall { Index k2; (k2 < nnz) ==> col_ind[k2] < columns })
__CPROVER_requires(__CPROVER_forall { Index k3; (k3 < nnz) ==> S[k3+1] == S[k3] + val[k3]*x[col_ind[k3]] })
__CPROVER_requires(__CPROVER_forall { Index k4; (k4 < rows) ==> r0[k4] == r[k4] })
__CPROVER_assigns(__CPROVER_object_whole(r))
__CPROVER_ensures(__CPROVER_forall { Index k5; (k5 < rows) ==> r[k5] == (S[row_ptr[k5+1]] - S[row_ptr[k5]]) * a + b * r0[k5] })
{
  for (Index row = 0 ; row < rows ; ++row)
  __CPROVER_assigns(row, __CPROVER_object_whole(r))
  __CPROVER_loop_invariant(row <= rows)
  __CPROVER_loop_invariant(__CPROVER_forall { Index k6; (k6 < row) ==> r[k6] == (S[row_ptr[k6+1]] - S[row_ptr[k6]]) * a + b * r0[k6] })
  __CPROVER_loop_invariant(__CPROVER_forall { Index k7; (row <= k7 && k7 < rows) ==> r[k7] == r0[k7] })
  __CPROVER_decreases(rows - row)
  {
    DT_ sum = 0;
    const IT_ end = row_ptr[row + 1];
    for (IT_ i = row_ptr[row] ; i < end ; ++i)
    __CPROVER_assigns(i, sum)
    __CPROVER_loop_invariant(row_ptr[row] <= i && i <= end)
    __CPROVER_loop_invariant(sum == S[i] - S[row_ptr[row]])
    __CPROVER_decreases(end - i)
    {
      sum += val[i] * x[col_ind[i]];
    }
    r[row] = (sum * a) + (b * r[row]);
  }
}
void harness(void){ DT_ *r,*x,*val,*S,*r0; IT_ *ci,*rp; DT_ a,b; Index rows,cols,nnz; csr_apply(r,a,x,b,val,ci,rp,rows,cols,nnz,S,r0); }
