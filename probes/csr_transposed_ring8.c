#include <stddef.h>
#include <stdint.h>
typedef uint64_t Index;
typedef uint8_t DT_;
typedef uint32_t IT_;
#define NMAX 100000
Index gk;              /* ghost column */
const DT_ *C;          /* ghost: column-filtered prefix, size nnz+1 */
const DT_ *XR;       /* ghost: x value paired with entry i */
const DT_ *y0;         /* ghost: old y / r */
Index g_nnz, g_columns, g_rows;
#define INST_ENTRY(e) \
  (__CPROVER_assume(!((e) < g_nnz) || col_ind[e] < g_columns), \
   __CPROVER_assume(!(row < g_rows && row_ptr[row] <= (e) && (e) < row_ptr[row+1]) || XR[e] == x[row]), \
   __CPROVER_assume(!((e) < g_nnz) || C[(e)+1] == (DT_)(C[e] + (col_ind[e]==gk ? val[e]*XR[e] : 0))))
#define RD_col_ind(e) (INST_ENTRY(e), col_ind[e])
#define RD_row_ptr(e) (__CPROVER_assume(!((e) < rows) || (row_ptr[e] <= row_ptr[(e)+1])), __CPROVER_assume(!((e) <= rows) || (row_ptr[e] <= g_nnz)), row_ptr[e])

void csr_t(DT_ * r, const DT_ a, const DT_ * const x, const DT_ b, const DT_ * const val,
   const IT_ * const col_ind, const IT_ * const row_ptr, const Index rows, const Index columns, const Index nnz)
__CPROVER_requires(rows <= NMAX && columns <= NMAX && nnz <= NMAX && g_nnz == nnz && g_columns == columns && g_rows == rows && a != 0)
__CPROVER_requires(__CPROVER_is_fresh(r, columns*sizeof(DT_)))
__CPROVER_requires(__CPROVER_is_fresh(y0, columns*sizeof(DT_)))
__CPROVER_requires(__CPROVER_is_fresh(x, rows*sizeof(DT_)))
__CPROVER_requires(__CPROVER_is_fresh(val, nnz*sizeof(DT_)))
__CPROVER_requires(__CPROVER_is_fresh(col_ind, nnz*sizeof(IT_)))
__CPROVER_requires(__CPROVER_is_fresh(row_ptr, (rows+1)*sizeof(IT_)))
__CPROVER_requires(__CPROVER_is_fresh(C, (nnz+1)*sizeof(DT_)))
__CPROVER_requires(__CPROVER_is_fresh(XR, (nnz)*sizeof(DT_)))
__CPROVER_requires(row_ptr[0] == 0 && row_ptr[rows] == nnz)
__CPROVER_requires(gk < columns ==> (r[gk] == y0[gk] && C[0] == (DT_)((DT_)(b/a) * y0[gk])))
__CPROVER_assigns(__CPROVER_object_whole(r))
__CPROVER_ensures(gk < columns ==> r[gk] == (DT_)(a * C[nnz]))
{
          DT_ ba = b/a;
          for (Index col = (0); col < columns ; ++col)
          __CPROVER_assigns(col, __CPROVER_object_whole(r))
          __CPROVER_loop_invariant(col <= columns)
          __CPROVER_loop_invariant((gk < col) ==> r[gk] == (DT_)(ba * y0[gk]))
          __CPROVER_loop_invariant((col <= gk && gk < columns) ==> r[gk] == y0[gk])
          __CPROVER_decreases(columns - col)
          {
            r[col] = ba * r[col];
          }
          for (Index row = (0); row < rows ; ++row)
          __CPROVER_assigns(row, __CPROVER_object_whole(r))
          __CPROVER_loop_invariant(row <= rows && row_ptr[row] <= nnz)
          __CPROVER_loop_invariant((gk < columns) ==> r[gk] == C[row_ptr[row]])
          __CPROVER_decreases(rows - row)
          {
            for (Index i = (RD_row_ptr(row)); i < RD_row_ptr(row+1) ; ++i)
            __CPROVER_assigns(i, __CPROVER_object_whole(r))
            __CPROVER_loop_invariant(row_ptr[row] <= i && i <= row_ptr[row+1] && row_ptr[row+1] <= nnz)
            __CPROVER_loop_invariant((gk < columns) ==> r[gk] == C[i])
            __CPROVER_decreases(row_ptr[row+1] - i)
            {
              r[RD_col_ind(i)] += val[i] * x[row];
            }
          }
          for (Index col = (0); col < columns ; ++col)
          __CPROVER_assigns(col, __CPROVER_object_whole(r))
          __CPROVER_loop_invariant(col <= columns)
          __CPROVER_loop_invariant((gk < col) ==> r[gk] == (DT_)(a * C[nnz]))
          __CPROVER_loop_invariant((col <= gk && gk < columns) ==> r[gk] == C[nnz])
          __CPROVER_decreases(columns - col)
          {
            r[col] = a * r[col];
          }
}
void harness(void){ DT_ *r,*x,*val; IT_ *ci,*rp; DT_ a,b; Index rows,cols,nnz; csr_t(r,a,x,b,val,ci,rp,rows,cols,nnz); }
