#include <stdint.h>
#include <stdbool.h>
typedef uint64_t Index; typedef double DT_;
#define FEAT_abs(x) ((x) < 0 ? -(x) : (x))
#define FEAT_eps 2.220446049250313e-16
struct Mat { Index rows, columns, used; };
struct Vec { DT_* e; Index n; };
void kernel_t(DT_* r, DT_ a, const DT_* x, DT_ b, const DT_* y, Index rows, Index columns)
__CPROVER_requires(FEAT_abs(a) >= FEAT_eps)
__CPROVER_requires(r != x)
__CPROVER_requires(__CPROVER_is_fresh(r, columns*sizeof(DT_)) )
__CPROVER_assigns(__CPROVER_object_whole(r))
__CPROVER_ensures(1)
;
void vec_copy(struct Vec* r, const struct Vec* y)
__CPROVER_requires(r->n == y->n)
__CPROVER_assigns(__CPROVER_object_whole(r->e))
__CPROVER_ensures(1)
;
void apply_transposed(const struct Mat* self, struct Vec* r, const struct Vec* x, const struct Vec* y, const DT_ alpha)
__CPROVER_requires(__CPROVER_is_fresh(self, sizeof(*self)) && __CPROVER_is_fresh(r, sizeof(*r)) && __CPROVER_is_fresh(x, sizeof(*x)) && __CPROVER_is_fresh(y, sizeof(*y)))
__CPROVER_requires(alpha == alpha)
__CPROVER_requires(self->columns <= 1000 && self->rows <= 1000 && r->n == self->columns && x->n == self->rows && y->n == self->columns)
__CPROVER_requires(__CPROVER_is_fresh(r->e, r->n*sizeof(DT_)) && __CPROVER_is_fresh(x->e, x->n*sizeof(DT_)) && __CPROVER_is_fresh(y->e, y->n*sizeof(DT_)))
__CPROVER_assigns(__CPROVER_object_whole(r->e))
{
        __CPROVER_assert(r->n == self->columns, "XASSERT size r");
#ifndef MUT
        if (self->used == 0 || FEAT_abs(alpha) < FEAT_eps)
#else
        if (self->used == 0)
#endif
        {
          vec_copy(r, y);
          return;
        }
        __CPROVER_assert(r->e != x->e, "XASSERT r != x");
        kernel_t(r->e, alpha, x->e, (DT_)(1.), y->e, self->rows, self->columns);
}
void harness(void){ struct Mat* m; struct Vec *r,*x,*y; DT_ al; apply_transposed(m,r,x,y,al); }
