#include <kernel/base_header.hpp>
#include <kernel/adjacency/permutation.hpp>
#include <cstdio>
using namespace FEAT;
int main(){ Adjacency::Permutation p; double x[1] = {1.0}; std::printf("size %lu\n", (unsigned long)p.size()); p.apply(x, true); std::printf("survived, x=%g\n", x[0]); return 0; }
