// Graph::permute_indices on a graph whose number of stored indices differs from its number of image nodes.
#include <kernel/base_header.hpp>
#include <kernel/adjacency/graph.hpp>
#include <kernel/adjacency/permutation.hpp>
#include <cstdio>
using namespace FEAT;
using namespace FEAT::Adjacency;
int main()
{
  // 2 domain nodes, 3 image nodes, 4 stored indices: rows {0,2}, {1,2}
  const Index dp[3] = {0, 2, 4}, ii[4] = {0, 2, 1, 2};
  Graph g(2, 3, 4, dp, ii);
  const Index pm[3] = {2, 0, 1};                       // a permutation of the 3 image nodes
  Permutation perm(3, Permutation::ConstrType::perm, pm);
  std::printf("permute_indices with a permutation of the %lu image nodes (graph stores %lu indices)...\n", (unsigned long)g.get_num_nodes_image(), (unsigned long)g.get_num_indices()); std::fflush(stdout);
  g.permute_indices(perm);
  int bad = 0; const Index want[4] = {2, 1, 0, 1};
  for(int k = 0; k < 4; ++k) { std::printf("%lu ", (unsigned long)g.get_image_idx()[k]); if(g.get_image_idx()[k] != want[k]) bad = 1; }
  std::printf(bad ? " -> WRONG\n" : " -> ok\n");
  return bad;
}
