// CuthillMcKee::compute on graphs with several components / isolated nodes: the result must be a bijection of the nodes.
#include <kernel/base_header.hpp>
#include <kernel/adjacency/graph.hpp>
#include <kernel/adjacency/cuthill_mckee.hpp>
#include <kernel/adjacency/permutation.hpp>
#include <cstdio>
#include <vector>
#include <csignal>
#include <csetjmp>
using namespace FEAT;
using namespace FEAT::Adjacency;
static int check(const char* what, Index n, const std::vector<Index>& dp, const std::vector<Index>& ii, CuthillMcKee::RootType rt)
{
  Graph g(n, n, Index(ii.size()), dp.data(), ii.data());
  std::printf("%s: ", what); std::fflush(stdout);
  Permutation p = CuthillMcKee::compute(g, false, rt, CuthillMcKee::SortType::standard);
  std::vector<int> seen(n, 0);
  const Index* pp = p.get_perm_pos();
  for(Index i = 0; i < n; ++i) { std::printf("%lu ", (unsigned long)pp[i]); if(pp[i] < n) ++seen[pp[i]]; }
  int bad = 0; for(Index i = 0; i < n; ++i) if(seen[i] != 1) bad = 1;
  std::printf(bad ? " -> NOT a bijection\n" : " -> ok\n");
  return bad;
}
int main()
{
  int bad = 0;
  // two components {0,1,2} (0 adjacent to 1 and 2) and {3,4}: the first component ends in a level with two nodes
  bad |= check("two components, standard root", 5, {0,2,3,4,5,6}, {1,2,0,0,4,3}, CuthillMcKee::RootType::standard);
  // a single isolated node, root = node of maximum degree
  bad |= check("one isolated node, maximum-degree root", 1, {0,0}, {}, CuthillMcKee::RootType::maximum_degree);
  // one node listing itself twice (duplicates are legal in an as-is rendered graph): degree 2 == num_nodes + 1
  bad |= check("one node with a duplicated self adjacency, minimum-degree root", 1, {0,2}, {0,0}, CuthillMcKee::RootType::minimum_degree);
  return bad;
}
