// Cloning / converting containers that hold a zero-length array (MemoryPool::allocate_memory(0) returns nullptr).
#include <kernel/base_header.hpp>
#include <kernel/lafem/dense_vector.hpp>
#include <kernel/lafem/sparse_matrix_csr.hpp>
#include <cstdio>
using namespace FEAT;
int main()
{
  LAFEM::SparseMatrixCSR<double, Index> a(3, 3, 0);   // 3x3, no entries: val and col_ind are zero-length arrays
  for(Index i = 0; i <= 3; ++i) a.row_ptr()[i] = 0;
  std::printf("source: rows %lu cols %lu nnz %lu val=%p col_ind=%p\n", (unsigned long)a.rows(), (unsigned long)a.columns(), (unsigned long)a.used_elements(), (void*)a.val(), (void*)a.col_ind());
  std::printf("deep clone...\n"); std::fflush(stdout);
  auto d = a.clone(LAFEM::CloneMode::Deep);
  std::printf("deep clone ok: nnz %lu\n", (unsigned long)d.used_elements());
  std::printf("weak clone (default mode)...\n"); std::fflush(stdout);
  auto w = a.clone(LAFEM::CloneMode::Weak);
  std::printf("weak clone ok: nnz %lu\n", (unsigned long)w.used_elements());
  std::printf("shallow clone...\n"); std::fflush(stdout);
  auto s = a.clone(LAFEM::CloneMode::Shallow);
  std::printf("shallow clone ok\n");
  return 0;
}
