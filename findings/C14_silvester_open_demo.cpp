// silvester-open:n on the reference triangle: weights must sum to 1/2 and every monomial of degree <= n must be integrated.
#include <kernel/base_header.hpp>
#include <kernel/cubature/dynamic_factory.hpp>
#include <cstdio>
#include <cmath>
using namespace FEAT;
static double fact(int n) { double f = 1.0; for(int i = 2; i <= n; ++i) f *= i; return f; }
int main()
{
  int bad = 0;
  for(int n = 2; n <= 8; ++n)
  {
    Cubature::Rule<Shape::Simplex<2>, double, double> rule;
    Cubature::DynamicFactory::create(rule, "silvester-open:" + stringify(n));
    double ws = 0.0; for(int i = 0; i < rule.get_num_points(); ++i) ws += rule.get_weight(i);
    double worst = 0.0; int wa = 0, wb = 0;
    for(int a = 0; a <= n; ++a) for(int b = 0; a + b <= n; ++b)
    {
      double s = 0.0;
      for(int i = 0; i < rule.get_num_points(); ++i) s += rule.get_weight(i) * std::pow(rule.get_coord(i, 0), a) * std::pow(rule.get_coord(i, 1), b);
      double e = std::fabs(s - fact(a) * fact(b) / fact(a + b + 2));
      if(e > worst) { worst = e; wa = a; wb = b; }
    }
    bool ok = std::fabs(ws - 0.5) < 5e-13 && worst < 5e-13;
    std::printf("silvester-open:%d  points %d  sum of weights %.15f  worst monomial error %.3e (x^%d y^%d)  %s\n", n, rule.get_num_points(), ws, worst, wa, wb, ok ? "ok" : "WRONG");
    if(!ok) bad = 1;
  }
  return bad;
}
