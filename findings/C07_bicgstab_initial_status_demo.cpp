// BiCGStab on a system whose initial defect already satisfies the tolerances (exact start vector / zero rhs):
// the convergence control returns 'success' for the initial defect, but BiCGStab::_apply_intern skips its loop and returns 'undefined'.
#include <kernel/base_header.hpp>
#include <kernel/lafem/dense_vector.hpp>
#include <kernel/lafem/sparse_matrix_csr.hpp>
#include <kernel/lafem/none_filter.hpp>
#include <kernel/lafem/pointstar_factory.hpp>
#include <kernel/solver/bicgstab.hpp>
#include <kernel/solver/pcg.hpp>
#include <kernel/solver/bicgstabl.hpp>
#include <cstdio>
using namespace FEAT;
int main()
{
  typedef LAFEM::SparseMatrixCSR<double, Index> MatrixType;
  typedef LAFEM::DenseVector<double, Index> VectorType;
  typedef LAFEM::NoneFilter<double, Index> FilterType;
  LAFEM::PointstarFactoryFD<double, Index> psf(5);
  MatrixType A(psf.matrix_csr());
  FilterType filter;
  VectorType rhs(A.create_vector_r()), sol(A.create_vector_r());
  rhs.format(0.0); sol.format(0.0);
  int bad = 0;
  {
    auto s = Solver::new_pcg(A, filter);
    s->init(); s->set_plot_mode(Solver::PlotMode::none);
    Solver::Status st = s->apply(sol, rhs);
    std::printf("PCG      zero defect: status=%d success=%d\n", int(st), int(Solver::status_success(st)));
    s->done();
  }
  {
    auto s = Solver::new_bicgstab(A, filter);
    s->init(); s->set_plot_mode(Solver::PlotMode::none);
    Solver::Status st = s->apply(sol, rhs);
    std::printf("BiCGStab zero defect: status=%d success=%d\n", int(st), int(Solver::status_success(st)));
    if(st == Solver::Status::undefined) bad = 1;
    s->done();
  }
  {
    auto s = Solver::new_bicgstabl(A, filter, 2);
    s->init(); s->set_plot_mode(Solver::PlotMode::none);
    Solver::Status st = s->apply(sol, rhs);
    std::printf("BiCGStabL zero defect: status=%d success=%d\n", int(st), int(Solver::status_success(st)));
    if(st == Solver::Status::undefined) bad = 1;
    s->done();
  }
  return bad;
}
