#include <kernel/base_header.hpp>
#include <kernel/lafem/arch/row_norm.hpp>
#include <cstdio>
#include <cmath>
using namespace FEAT;
int main(){
  double val[2]={3.0,4.0}; unsigned ci[2]={0,1}; unsigned rp[2]={0,2}; double rn[1]={-1};
  LAFEM::Arch::RowNorm::bcsr_generic_norm2<double,unsigned>(rn,val,ci,rp,Index(1),1,1);
  std::printf("bcsr row norm2 of [3 4] = %.17g (expected 5)\n", rn[0]);
  return std::fabs(rn[0]-5.0) < 1e-12 ? 0 : 1;
}
