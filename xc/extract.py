#!/usr/bin/env python3
"""Mechanical cutter + C rewriter for FEAT3 kernels (DESIGN §3.1).

Nothing here knows a particular function: a spec names a locator and the
rewrite rules it expects to fire; everything else is a fixed rule table.
Every failure to locate / an expected rule that does not fire raises
ExtractError, which the driver maps to exit 2 (inconclusive), never a verdict.
"""
import re, difflib, hashlib


class ExtractError(Exception):
    pass


# ---------------------------------------------------------------- lexical helpers
def strip_comments(src):
    """Replace comments by blanks (newlines kept, so line numbers survive)."""
    out = []
    i, n = 0, len(src)
    while i < n:
        c = src[i]
        if c == '/' and i + 1 < n and src[i + 1] == '/':
            j = src.find('\n', i)
            if j < 0:
                j = n
            out.append(' ' * (j - i))
            i = j
        elif c == '/' and i + 1 < n and src[i + 1] == '*':
            j = src.find('*/', i + 2)
            j = n if j < 0 else j + 2
            out.append(''.join(ch if ch == '\n' else ' ' for ch in src[i:j]))
            i = j
        elif c == '"' or c == "'":
            j = i + 1
            while j < n and src[j] != c:
                if src[j] == '\\':
                    j += 1
                j += 1
            out.append(src[i:j + 1])
            i = j + 1
        else:
            out.append(c)
            i += 1
    return ''.join(out)


def match_close(s, i, open_ch='(', close_ch=')'):
    """s[i] == open_ch; return index of the matching close_ch."""
    assert s[i] == open_ch, (s[i - 10:i + 10], open_ch)
    depth = 0
    n = len(s)
    j = i
    while j < n:
        c = s[j]
        if c == '"' or c == "'":
            k = j + 1
            while k < n and s[k] != c:
                if s[k] == '\\':
                    k += 1
                k += 1
            j = k + 1
            continue
        if c == open_ch:
            depth += 1
        elif c == close_ch:
            depth -= 1
            if depth == 0:
                return j
        j += 1
    raise ExtractError('unbalanced %s at %d' % (open_ch, i))


TOKEN_RE = re.compile(r'[A-Za-z_]\w*|\d[\w.]*(?:[eE][+-]?\d+)?\w*|::|->|<<=|>>=|[-+*/%&|^!=<>]=|\+\+|--|&&|\|\||"(?:\\.|[^"\\])*"|\'(?:\\.|[^\'\\])*\'|\S')


def tokens(s):
    return TOKEN_RE.findall(s)


def lineno(src, pos):
    return src.count('\n', 0, pos) + 1


# ---------------------------------------------------------------- locators
def cut_function(src, sig_regex, with_template=True, occurrence=1):
    """Cut `template<..> ret Class::name(args) { body }` (brace matched).
    src must already be comment-stripped. Returns (text, start, end)."""
    ms = list(re.finditer(sig_regex, src))
    if len(ms) < occurrence:
        raise ExtractError('signature not found: %s (occurrence %d)' % (sig_regex, occurrence))
    m = ms[occurrence - 1]
    start = m.start()
    if with_template:
        # walk back over immediately preceding `template <...>` lines
        while True:
            head = src[:start].rstrip()
            mt = re.search(r'template\s*<[^{};]*>\s*$', head)
            if not mt:
                break
            start = mt.start()
    po = src.index('(', m.start()) if '(' in m.group(0) else src.index('(', m.end() - 1)
    pc = match_close(src, po)
    # between ')' and '{' only qualifiers / initialiser lists are allowed
    bo = pc + 1
    while src[bo] != '{':
        if src[bo] == ';':
            raise ExtractError('declaration, not definition: %s' % sig_regex)
        if src[bo] == '(':
            bo = match_close(src, bo)
        bo += 1
    bc = match_close(src, bo, '{', '}')
    return src[start:bc + 1], start, bc + 1


def cut_member(src, class_regex, sig_regex, occurrence=1):
    """Cut a member function defined inside the class body matched by class_regex."""
    mc = re.search(class_regex, src)
    if not mc:
        raise ExtractError('class not found: %s' % class_regex)
    bo = src.index('{', mc.end() - 1)
    bc = match_close(src, bo, '{', '}')
    body = src[bo:bc + 1]
    text, s, e = cut_function(body, sig_regex, with_template=True, occurrence=occurrence)
    return text, bo + s, bo + e


def cut_between(src, scope_text, scope_start, after_regex, before_regex):
    """Region = the statements between the end of the match of after_regex and the start of the (next) match of
    before_regex: robust against rewrites of the region itself (the anchors are the neighbouring statements)."""
    ma = re.search(after_regex, scope_text, flags=re.S)
    if not ma:
        raise ExtractError('region anchor (after) not found: %s' % after_regex)
    mb = re.search(before_regex, scope_text[ma.end():], flags=re.S)
    if not mb:
        raise ExtractError('region anchor (before) not found: %s' % before_regex)
    b, e = ma.end(), ma.end() + mb.start()
    return scope_text[b:e], scope_start + b, scope_start + e


def cut_region(src, scope_text, scope_start, begin_regex, end_regex):
    """Inside scope_text (a function cut) return the statement range that starts at the
    match of begin_regex and ends with the match of end_regex (inclusive, and extended to
    the end of the brace-balanced statement the end match starts)."""
    mb = re.search(begin_regex, scope_text)
    if not mb:
        raise ExtractError('region begin not found: %s' % begin_regex)
    me = None
    for me in re.finditer(end_regex, scope_text[mb.start():]):
        break
    if me is None:
        raise ExtractError('region end not found: %s' % end_regex)
    e = mb.start() + me.end()
    # extend to end of statement: balance braces/parens from region start
    seg = scope_text[mb.start():e]
    depth = seg.count('{') - seg.count('}')
    while depth > 0:
        nxt = scope_text.index('}', e)
        depth += scope_text[e:nxt].count('{') - 1
        e = nxt + 1
    return scope_text[mb.start():e], scope_start + mb.start(), scope_start + e


# ---------------------------------------------------------------- rewrite rules
class Rewriter:
    def __init__(self, scalars, extra_rules=(), drop=(), members=(), vectors=(), enums=()):
        self.scalars = list(scalars)
        self.extra = list(extra_rules)
        self.drop = list(drop)
        self.members = list(members)
        self.vectors = list(vectors)
        self.enums = list(enums)
        self.hits = {}

    def _hit(self, rule, n=1):
        self.hits[rule] = self.hits.get(rule, 0) + n

    def _sub(self, rule, pat, rep, s, flags=0):
        s2, n = re.subn(pat, rep, s, flags=flags)
        if n:
            self._hit(rule, n)
        return s2

    def _balanced_sub(self, rule, head_regex, make, s):
        """For each match of head_regex that ends just before '(' rewrite
        head + (args) by make(match, args) -> text or None."""
        pos = 0
        out = []
        rx = re.compile(head_regex)
        while True:
            m = rx.search(s, pos)
            if not m:
                break
            po = m.end()
            if po >= len(s) or s[po] != '(':
                out.append(s[pos:m.end()])
                pos = m.end()
                continue
            pc = match_close(s, po)
            rep = make(m, s[po + 1:pc], s, pc)
            if rep is None:
                out.append(s[pos:m.end()])
                pos = m.end()
                continue
            out.append(s[pos:m.start()])
            out.append(rep)
            pos = pc + 1
            self._hit(rule)
        out.append(s[pos:])
        return ''.join(out)

    def run(self, text, cname=None):
        s = text
        T = '|'.join(re.escape(t) for t in sorted(self.scalars, key=len, reverse=True))
        # R17 preprocessor conditionals of the cut, evaluated with the macros of this build's feat_config.hpp
        if re.search(r'^\s*#\s*(if|ifdef|ifndef)\b', s, flags=re.M):
            s2 = eval_conditionals(s, build_macros())
            self._hit('R17', len(re.findall(r'^\s*#\s*(?:if|ifdef|ifndef)\b', s, flags=re.M)))
            s = s2
        # R14 drop lines
        for pat in self.drop:
            s = self._sub('R14', r'^[ \t]*' + pat + r'[^\n]*\n', '\n', s, flags=re.M)
        # R1 template header(s) at the start of the cut
        while True:
            m = re.match(r'\s*template\s*<', s)
            if not m:
                break
            lt = s.index('<', m.start())
            depth = 0
            j = lt
            while True:
                if s[j] == '<':
                    depth += 1
                elif s[j] == '>':
                    depth -= 1
                    if depth == 0:
                        break
                j += 1
            s = s[j + 1:]
            self._hit('R1')
        # R2 qualified name in the signature (first '(' of the text belongs to it)
        po = s.index('(')
        head = s[:po]
        m = re.search(r'((?:[A-Za-z_]\w*(?:<[^()]*>)?::)+)(~?[A-Za-z_]\w*)\s*$', head)
        if m:
            name = cname or m.group(2)
            head = head[:m.start()] + name
            self._hit('R2')
        elif cname:
            m2 = re.search(r'([A-Za-z_]\w*)\s*$', head)
            head = head[:m2.start()] + cname
        head = re.sub(r'\b(static|inline|virtual|constexpr|explicit|CUDA_HOST_DEVICE|CUDA_HOST|FEAT_NOINLINE)\b\s*', '', head)
        # qualifiers between ')' and '{'
        pc = match_close(s, po)
        bo = s.index('{', pc)
        quals = s[pc + 1:bo]
        quals2 = re.sub(r'\b(const|override|noexcept|final)\b', '', quals)
        if quals2.strip():
            raise ExtractError('unsupported text between signature and body: %r' % quals.strip())
        s = head + s[po:pc + 1] + '\n' + s[bo:]
        # spec-local regex rules (name, pattern, replacement) see the raw C++ text: applied before every generic rule
        for name, pat, rep in self.extra:
            if pat == '@divisions':     # every binary '/' becomes rep(left, right)
                s, n = rewrite_divisions(s, rep)
                if n:
                    self._hit(name, n)
                continue
            s = self._sub(name, pat, rep, s)
        # R15 simple token equivalents
        s = self._sub('R15', r'\bnullptr\b', 'NULL', s)
        s = self._sub('R15', r'\bstd::size_t\b', 'size_t', s)
        s = self._sub('R15', r'\bstd::(u?int(?:8|16|32|64)_t)\b', r'\1', s)
        s = self._sub('R15', r'\bconstexpr\b\s*', '', s)
        # R5 named casts
        def mk_cast(m, args, whole, pc):
            return '((%s)(%s))' % (m.group(1).strip(), args)
        for _ in range(4):
            s = self._balanced_sub('R5', r'\b(?:static_cast|reinterpret_cast|const_cast)\s*<\s*([^<>()]*?(?:<[^<>()]*>)?[^<>()]*?)\s*>\s*(?=\()', mk_cast, s)
        # R9 XASSERT / ASSERT
        def mk_assert(m, args, whole, pc):
            msg = re.sub(r'[^\w <>=!+\-*/.\[\]]', ' ', ' '.join(args.split()))[:90]
            first = split_args(args)[0]
            return '__CPROVER_assert(%s, "XASSERT %s")' % (first, msg)
        s = self._balanced_sub('R9', r'\b(?:XASSERTM|XASSERT|ASSERTM|ASSERT)\s*(?=\()', mk_assert, s)
        # R10 XABORTM
        def mk_abort(m, args, whole, pc):
            msg = re.sub(r'[^\w <>=!+\-*/.]', ' ', ' '.join(args.split()))[:90]
            return 'FEAT_XABORT("XABORTM %s")' % msg
        s = self._balanced_sub('R10', r'\bXABORTM\s*(?=\()', mk_abort, s)
        # R12 enum class constants
        for en in self.enums:
            s = self._sub('R12', r'\b%s::(\w+)\b' % re.escape(en), en + r'_\1', s)
        # R11 members
        for mem in self.members:
            s = self._sub('R11', r'\bthis->%s\b' % re.escape(mem), 'self->' + mem, s)
            s = self._sub('R11', r'(?<![\w>.])%s\b' % re.escape(mem), 'self->' + mem, s)
        # R3 direct-initialisation `T v(e)` -> `T v = (e)`
        if T:
            def mk_decl(m, args, whole, pc):
                k = pc + 1
                while k < len(whole) and whole[k] in ' \t\n':
                    k += 1
                if k < len(whole) and whole[k] in ';,)':
                    return '%s %s = (%s)' % (m.group(1), m.group(2), args)
                return None
            s = self._balanced_sub('R3', r'(?<![\w:.>])((?:const\s+)?(?:unsigned\s+)?(?:%s)(?:\s+const)?(?:\s*\*\s*(?:const\s+)?)?)\s*\b(?!const\b)([A-Za-z_]\w*)\s*(?=\()' % (T + '|int|long|bool|double|float|size_t'), mk_decl, s)
            # R4 functional casts T(e) -> ((T)(e))
            def mk_fcast(m, args, whole, pc):
                return '((%s)(%s))' % (m.group(1), args)
            # functional casts only occur in the body; the parameter list may hold declarators such as `DT_ (*v)[N]`
            _po = s.index('(')
            _pc = match_close(s, _po)
            _head, _body = s[:_pc + 1], s[_pc + 1:]
            for _ in range(4):
                _body = self._balanced_sub('R4', r'(?<![\w:.>])(%s)\s*(?=\((?!\s*\*))' % (T + '|double|float|int'), mk_fcast, _body)
            s = _head + _body
        # R6 Math::
        s = self._sub('R6', r'\bMath::(abs|min|max|sqr|sqrt|isnan|isfinite|isnormal|signum|pow|cub)\s*(?=\()', r'FEAT_\1', s)
        s = self._sub('R6', r'\bMath::eps\s*<\s*(\w+)\s*>\s*\(\s*\)', r'FEAT_eps(\1)', s)
        s = self._sub('R6', r'\bMath::huge\s*<\s*(\w+)\s*>\s*\(\s*\)', r'FEAT_huge(\1)', s)
        s = self._sub('R6', r'\bMath::tiny\s*<\s*(\w+)\s*>\s*\(\s*\)', r'FEAT_tiny(\1)', s)
        # R7 MemoryPool
        s = self._sub('R7', r'\bMemoryPool::(set_memory|copy|convert)\s*(?:<[^<>()]*>)?\s*(?=\()', r'MemoryPool_\1', s)
        # R8 unnamed parameters
        po = s.index('(')
        pc = match_close(s, po)
        params = split_args(s[po + 1:pc])
        newp = []
        for k, p in enumerate(params):
            pt = p.strip()
            if pt and re.fullmatch(r'(?:const\s+)?(?:unsigned\s+)?(?:%s|int|bool|double|float|long)(?:\s+const)?(?:\s*[*&]\s*(?:const)?)*' % T, pt):
                newp.append(p.rstrip() + ' _u%d' % (k + 1))
                self._hit('R8')
            else:
                newp.append(p)
        s = s[:po + 1] + ','.join(newp) + s[pc:]
        # R11b method cuts get the object as an explicit first parameter
        if self.members:
            po = s.index('(')
            pc = match_close(s, po)
            inner = s[po + 1:pc].strip()
            s = s[:po + 1] + 'SELF_T * self' + (', ' + inner if inner and inner != 'void' else '') + s[pc:]
            self._hit('R11b')
        # R16 references in parameter lists become pointers only where a spec rule asked; default-args dropped
        po = s.index('(')
        pc = match_close(s, po)
        plist = s[po + 1:pc]
        parts = split_args(plist)
        n = 0
        for k, prm in enumerate(parts):
            depth = 0
            for q, ch in enumerate(prm):
                if ch in '([{<':
                    depth += 1
                elif ch in ')]}>':
                    depth -= 1
                elif ch == '=' and depth == 0 and prm[q:q + 2] != '==':
                    parts[k] = prm[:q].rstrip()
                    n += 1
                    break
        if n:
            self._hit('R16', n)
            s = s[:po + 1] + ','.join(parts) + s[pc:]
        return s


def _primary_back(s, j):
    """s[j] is the last character of a postfix expression: return the index of its first character."""
    while True:
        while j >= 0 and s[j].isspace():
            j -= 1
        if j < 0:
            raise ExtractError('division: no left operand')
        if s[j] in ')]':
            close, opn = s[j], '(' if s[j] == ')' else '['
            depth = 0
            while True:
                if s[j] == close:
                    depth += 1
                elif s[j] == opn:
                    depth -= 1
                    if depth == 0:
                        break
                j -= 1
                if j < 0:
                    raise ExtractError('division: unbalanced left operand')
            k = j - 1
            while k >= 0 and s[k].isspace():
                k -= 1
            if k >= 0 and (s[k].isalnum() or s[k] == '_' or s[k] in ')]'):
                # call / index / cast prefix: f(...)  a[i]  (T)(x)
                if s[k] == ')' and close == ')':
                    # a cast "(T)(x)": include the parenthesised type
                    j = k
                    continue
                j = k
                continue
            return j
        if s[j].isalnum() or s[j] == '_' or s[j] == '.':
            while j >= 0 and (s[j].isalnum() or s[j] == '_' or s[j] == '.'):
                j -= 1
            if j >= 1 and s[j - 1:j + 1] == '->':
                j -= 2
                continue
            return j + 1
        raise ExtractError('division: cannot parse left operand near %r' % s[max(0, j - 20):j + 1])


def _primary_fwd(s, j):
    """s[j:] starts a unary expression: return the index one past its end."""
    n = len(s)
    while j < n and s[j].isspace():
        j += 1
    while j < n and s[j] in '-+!~':
        j += 1
        while j < n and s[j].isspace():
            j += 1
    if j >= n:
        raise ExtractError('division: no right operand')
    if s[j] == '(':
        j = match_close(s, j) + 1
        k = j
        while k < n and s[k].isspace():
            k += 1
        # "(T)(x)" or "(T)x": a cast followed by its operand
        if k < n and (s[k] == '(' or s[k].isalnum() or s[k] == '_') and re.fullmatch(r'\(\s*[A-Za-z_]\w*\s*\*?\s*\)', s[s.rfind('(', 0, j):j] if s.rfind('(', 0, j) >= 0 else ''):
            return _primary_fwd(s, k)
    elif s[j].isalnum() or s[j] == '_' or s[j] == '.':
        while j < n and (s[j].isalnum() or s[j] == '_' or s[j] == '.'):
            j += 1
    else:
        raise ExtractError('division: cannot parse right operand near %r' % s[j:j + 20])
    while True:
        k = j
        while k < n and s[k].isspace():
            k += 1
        if k < n and s[k] in '([':
            j = match_close(s, k) + 1
        elif s[k:k + 2] == '->' or (k < n and s[k] == '.'):
            j = k + (2 if s[k] == '-' else 1)
            while j < n and (s[j].isalnum() or s[j] == '_'):
                j += 1
        else:
            return j


def rewrite_divisions(s, macro):
    """Rewrite every binary '/' to macro(left, right) with C precedence: the left operand is the multiplicative
    chain to the left of the operator, the right operand the unary expression after it."""
    count = 0
    pos = 0
    while True:
        m = re.compile(r'/(?![/*=])').search(s, pos)
        if not m:
            return s, count
        d = m.start()
        if d > 0 and s[d - 1] in '/*':      # end of a comment marker
            pos = d + 1
            continue
        # left: multiplicative chain
        a = _primary_back(s, d - 1)
        while True:
            k = a - 1
            while k >= 0 and s[k].isspace():
                k -= 1
            if k >= 0 and s[k] in '*%':
                k2 = k - 1
                while k2 >= 0 and s[k2].isspace():
                    k2 -= 1
                if k2 >= 0 and (s[k2].isalnum() or s[k2] in '_)]'):
                    a = _primary_back(s, k2)
                    continue
            break
        e = _primary_fwd(s, d + 1)
        s = s[:a] + '%s(%s, %s)' % (macro, s[a:d].strip(), s[d + 1:e].strip()) + s[e:]
        count += 1
        pos = a


_BM = None


def build_macros():
    global _BM
    if _BM is None:
        import os
        _BM = {}
        repo = os.environ.get('FEAT_REPO', '/repo')
        for cand in (os.path.join(repo, '_build', 'feat_config.hpp'),):
            if os.path.exists(cand):
                for m in re.finditer(r'^#define\s+(\w+)(?:[ \t]+(.*))?$', open(cand).read(), flags=re.M):
                    _BM[m.group(1)] = (m.group(2) or '1').strip()
    return _BM


def eval_conditionals(text, macros):
    out, stack = [], []
    for line in text.split('\n'):
        m = re.match(r'\s*#\s*(ifdef|ifndef|if|elif|else|endif)\b\s*(.*)$', line)
        if m:
            kw, arg = m.group(1), m.group(2).strip()
            if kw == 'ifdef':
                stack.append([arg in macros, arg in macros])
            elif kw == 'ifndef':
                stack.append([arg not in macros, arg not in macros])
            elif kw in ('if', 'elif'):
                e = re.sub(r'defined\s*\(?\s*(\w+)\s*\)?', lambda mm: '1' if mm.group(1) in macros else '0', arg)
                e = re.sub(r'\b[A-Za-z_]\w*\b', lambda mm: macros.get(mm.group(0), '0') if re.fullmatch(r'\d+', macros.get(mm.group(0), '0')) else '0', e)
                e = e.replace('&&', ' and ').replace('||', ' or ')
                e = re.sub(r'!(?!=)', ' not ', e)
                try:
                    v = bool(eval(e))
                except Exception:
                    raise ExtractError('cannot evaluate preprocessor condition: ' + arg)
                if kw == 'if':
                    stack.append([v, v])
                else:
                    stack[-1][0] = (not stack[-1][1]) and v
                    stack[-1][1] = stack[-1][1] or v
            elif kw == 'else':
                stack[-1][0] = not stack[-1][1]
            elif kw == 'endif':
                stack.pop()
            out.append('')
            continue
        out.append(line if all(f[0] for f in stack) else '')
    return '\n'.join(out)


def split_args(a):
    """split at top-level commas (angle brackets are only tracked after an identifier)."""
    out, cur, depth, adepth = [], [], 0, 0
    for i, c in enumerate(a):
        if c in '([{':
            depth += 1
        elif c in ')]}':
            depth -= 1
        elif c == '<' and re.search(r'[A-Za-z_]\w*$', ''.join(cur)) and re.match(r'[\w\s:,*&<>]*>', a[i + 1:]) and depth == 0:
            adepth += 1
        elif c == '>' and adepth > 0 and depth == 0:
            adepth -= 1
        if c == ',' and depth == 0 and adepth == 0:
            out.append(''.join(cur))
            cur = []
        else:
            cur.append(c)
    out.append(''.join(cur))
    return out


# ---------------------------------------------------------------- loop finder / splicer
class Loop:
    def __init__(self, label, kind, kw_pos, ins_pos):
        self.label, self.kind, self.kw_pos, self.ins_pos = label, kind, kw_pos, ins_pos


def find_loops(s):
    """Return loops of function text s in source order with nesting labels 1, 1.1, 2 ...
    ins_pos = position where a CBMC loop contract must be inserted."""
    loops = []
    bo = s.index('{', match_close(s, s.index('(')))
    bc = match_close(s, bo, '{', '}')

    def skip_ws(i):
        while i < len(s) and s[i] in ' \t\n\r':
            i += 1
        return i

    def stmt(i, prefix, counter):
        """parse one statement starting at i, return end index (exclusive)."""
        i = skip_ws(i)
        if s[i] == '{':
            e = match_close(s, i, '{', '}')
            block(i + 1, e, prefix, counter)
            return e + 1
        ml = re.match(r'(case\b[^:;{}]*|default\s*):(?!:)', s[i:])
        if ml:
            return stmt(i + ml.end(), prefix, counter)
        m = re.match(r'(for|while|do|if|else|switch)\b', s[i:])
        if m:
            kw = m.group(1)
            j = skip_ws(i + len(kw))
            if kw in ('for', 'while'):
                pc = match_close(s, j)
                counter[0] += 1
                label = prefix + str(counter[0])
                lp = Loop(label, kw, i, pc + 1)
                loops.append(lp)
                lp.end = stmt(pc + 1, label + '.', [0])
                return lp.end
            if kw == 'do':
                counter[0] += 1
                label = prefix + str(counter[0])
                lp = Loop(label, 'do', i, None)
                loops.append(lp)
                e = stmt(j, label + '.', [0])
                e = skip_ws(e)
                mw = re.match(r'while\b', s[e:])
                if not mw:
                    raise ExtractError('do without while')
                po = skip_ws(e + 5)
                pc = match_close(s, po)
                lp.ins_pos = pc + 1
                lp.end = s.index(';', pc) + 1
                return lp.end
            if kw in ('if', 'switch'):
                pc = match_close(s, j)
                e = stmt(pc + 1, prefix, counter)
                k = skip_ws(e)
                if re.match(r'else\b', s[k:]):
                    return stmt(k + 4, prefix, counter)
                return e
            if kw == 'else':
                return stmt(j, prefix, counter)
        # plain statement: up to ';' at depth 0
        depth = 0
        j = i
        while True:
            c = s[j]
            if c in '([{':
                depth += 1
            elif c in ')]}':
                depth -= 1
            elif c == ';' and depth == 0:
                return j + 1
            j += 1

    def block(i, e, prefix, counter):
        i = skip_ws(i)
        while i < e:
            i = stmt(i, prefix, counter)
            i = skip_ws(i)

    block(bo + 1, bc, '', [0])
    # loops list is in discovery order == source order of keywords? ensure sort
    # CBMC numbers the loops of a function by the position of their back edge: innermost/earliest-ending first
    for n, lp in enumerate(sorted(loops, key=lambda l: l.end)):
        lp.cbmc_id = n
    loops.sort(key=lambda l: l.kw_pos)
    return loops


def splice_loops(s, loop_specs):
    """Insert loop contract texts (dict label -> text). Returns new text."""
    loops = find_loops(s)
    ins = []
    for lp in loops:
        if lp.label in loop_specs:
            ins.append((lp.ins_pos, '\n' + loop_specs[lp.label].rstrip() + '\n'))
    missing = set(loop_specs) - {l.label for l in loops}
    if missing:
        raise ExtractError('contract names loops that do not exist in the code: %s (code has %s)'
                           % (sorted(missing), [l.label for l in loops]))
    for pos, txt in sorted(ins, reverse=True):
        s = s[:pos] + txt + s[pos:]
    return s, [l.label for l in loops]


def splice_contract(s, contract):
    po = s.index('(')
    pc = match_close(s, po)
    return s[:pc + 1] + '\n' + contract.rstrip() + '\n' + s[pc + 1:]


def apply_triggers(s, names):
    """Rewrite reads `name[e]` in the body to RD_name(e) (manual E-matching, DESIGN §3.3)."""
    bo = s.index('{', match_close(s, s.index('(')))
    head, body = s[:bo], s[bo:]
    count = {}
    for nm in names:
        out = []
        pos = 0
        rx = re.compile(r'(?<![\w.>])%s\s*\[' % re.escape(nm))
        while True:
            m = rx.search(body, pos)
            if not m:
                break
            bo2 = m.end() - 1
            bc2 = match_close(body, bo2, '[', ']')
            out.append(body[pos:m.start()])
            out.append('RD_%s(%s)' % (nm, body[bo2 + 1:bc2]))
            pos = bc2 + 1
            count[nm] = count.get(nm, 0) + 1
        out.append(body[pos:])
        body = ''.join(out)
    return head + body, count


# ---------------------------------------------------------------- audit
def token_audit(src_cut, rewritten):
    """List of (source tokens, result tokens) hunks; evidence only."""
    a, b = tokens(src_cut), tokens(rewritten)
    sm = difflib.SequenceMatcher(None, a, b, autojunk=False)
    hunks = []
    for tag, i1, i2, j1, j2 in sm.get_opcodes():
        if tag != 'equal':
            hunks.append([' '.join(a[i1:i2]), ' '.join(b[j1:j2])])
    return hunks


def sha(text):
    return hashlib.sha256(text.encode()).hexdigest()[:16]
