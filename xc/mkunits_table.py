#!/usr/bin/env python3
"""Prints the as-built table of units under contract (markdown), generated from contracts/*/*.spec."""
import glob, os, sys
HERE = os.path.dirname(os.path.abspath(__file__)); V = os.path.dirname(HERE)
sys.path.insert(0, HERE)
import engine as E
rows = []
for p in sorted(glob.glob(os.path.join(V, 'contracts', 'C*', '*.spec'))):
    sp = E.Spec(p)
    modes = {}
    for c, cfg in sp.configs.items():
        m = cfg.get('mode', 'proof')
        modes.setdefault(m, []).append(c)
    ms = '; '.join('%s: %s' % ({'proof': '[P]', 'loopfree': '[L]', 'closed': '[K]', 'bounded': '[B]'}[m], ', '.join(cs) if len(cs) <= 4 else '%s … %s (%d)' % (cs[0], cs[-1], len(cs))) for m, cs in modes.items())
    rows.append('| %s | `%s` | %s | %s | %s |' % (sp.prop, sp.name, sp.meta['file'].replace('kernel/', ''), ms, sp.meta.get('title', '').replace('|', '/')[:230]))
print('| prop | unit (contracts/<prop>/<unit>.spec) | source file (kernel/…) | modes: configurations | what the contract says |')
print('|---|---|---|---|---|')
print('\n'.join(rows))
