#!/usr/bin/env python3
"""Developer helper: run one spec (all or named configs), optionally its canaries."""
import sys, os, tempfile, shutil, argparse
sys.path.insert(0, os.path.dirname(os.path.abspath(__file__)))
import engine as E
import replay as RP
from concurrent.futures import ThreadPoolExecutor
ap = argparse.ArgumentParser()
ap.add_argument('spec'); ap.add_argument('configs', nargs='*')
ap.add_argument('--canaries', action='store_true'); ap.add_argument('--keep', action='store_true')
ap.add_argument('--probe', action='store_true')
a = ap.parse_args()
sp = E.Spec(a.spec)
wd = tempfile.mkdtemp(prefix='dev', dir=os.environ.get('TMPDIR', '/tmp'))
cfgs = a.configs or list(sp.configs)
jobs = []
def job(cfg, can):
    u = E.Unit(E.Spec(a.spec))
    sub = os.path.join(wd, (can or 'base') + '_' + cfg); os.makedirs(sub, exist_ok=True)
    mut = None
    if can:
        c = u.spec.canaries[can]; mut = (c['pattern'], c['replace'])
    if u.spec.configs[cfg].get('mode') == 'bounded' and u.spec.configs[cfg].get('harness') == 'generated':
        r = RP.run_bounded_unit(u, cfg, sub, mutate=mut)
        pr = RP.bounded_reach_probe(u, cfg, sub) if (a.probe and not can and r.status == 'ok') else None
        return cfg, can, r, pr
    r = E.run_config(u, cfg, sub, mutate=mut)
    pr = None
    if a.probe and not can and r.status == 'ok':
        pr = E.reach_probe(u, cfg, sub, u.ctext_plain)
    return cfg, can, r, pr
with ThreadPoolExecutor(12) as ex:
    futs = [ex.submit(job, c, None) for c in cfgs]
    if a.canaries:
        for can, cd in sp.canaries.items():
            for c in (cd.get('configs', '').split() or cfgs):
                futs.append(ex.submit(job, c, can))
    for f in futs:
        cfg, can, r, pr = f.result()
        print('%-14s %-18s %-12s obl=%d failed=%d %.1fs %s %s' % (cfg, can or '-', r.status, len(r.obligations), len(r.failed), r.solver_s, r.reason[:300], ('PROBE:' + pr) if pr else ''))
        for o in r.failed[:6]:
            print('      FAILED', o['name'], '|', o['desc'], '| line', o['line'])
if a.keep: print(wd)
else: shutil.rmtree(wd)
