#!/usr/bin/env python3
"""Driver: spec -> extracted+annotated C -> goto-cc / goto-instrument --dfcc / cbmc -> verdict.
See DESIGN.md §3. Exit codes of a check: 0 held, 1 violation, 2 inconclusive (tool trouble)."""
import os, re, sys, json, time, shutil, subprocess, tempfile, hashlib, glob, shlex
from concurrent.futures import ThreadPoolExecutor

HERE = os.path.dirname(os.path.abspath(__file__))
VERIF = os.path.dirname(HERE)
REPO = os.environ.get('FEAT_REPO', '/repo')
sys.path.insert(0, HERE)
import extract as X

MEM_KB = 14 * 1024 * 1024


# ---------------------------------------------------------------- spec files
class Spec:
    """Sectioned text file:  @@meta / @@config <name> / @@prelude / @@contract /
    @@loop <label> / @@harness / @@canary <name> / @@params / @@native ..."""

    def __init__(self, path):
        self.path = path
        self.meta = {}
        self.configs = {}
        self.loops = {}
        self.canaries = {}
        self.sections = {}
        cur = None
        buf = []
        secs = []
        for line in open(path).read().split('\n'):
            if line.startswith('@@'):
                if cur is not None:
                    secs.append((cur, '\n'.join(buf)))
                cur = line[2:].strip()
                buf = []
            else:
                buf.append(line)
        if cur is not None:
            secs.append((cur, '\n'.join(buf)))
        for name, text in secs:
            parts = name.split(None, 1)
            kind = parts[0]
            arg = parts[1].strip() if len(parts) > 1 else ''
            if kind == 'meta':
                self.meta = self._kv(text)
            elif kind == 'config':
                self.configs[arg] = self._kv(text)
            elif kind == 'config-range':
                # "@@config-range closed_n%d VAR from to": one config per integer, defs get -DVAR=<k>
                nm, var, lo, hi = arg.split()
                base = self._kv(text)
                for k in range(int(lo), int(hi) + 1):
                    c = dict(base)
                    c['defs'] = (base.get('defs', '') + ' -D%s=%d' % (var, k)).strip()
                    if 'tier_from' in base and k >= int(base['tier_from']):
                        pass
                    self.configs[nm % k] = c
            elif kind == 'loop':
                self.loops[arg] = text
            elif kind == 'canary':
                self.canaries[arg] = self._kv(text)
            elif kind == 'cut':
                self.cuts = getattr(self, 'cuts', [])
                d = self._kv(text)
                d['name'] = arg
                self.cuts.append(d)
            else:
                self.sections[kind + (' ' + arg if arg else '')] = text
        self.name = self.meta.get('id') or os.path.basename(path).rsplit('.', 1)[0]
        self.prop = self.meta['property']

    @staticmethod
    def _kv(text):
        d = {}
        key = None
        for line in text.split('\n'):
            if not line.strip() or line.lstrip().startswith('#'):
                continue
            m = re.match(r'([A-Za-z_][\w-]*):\s?(.*)$', line)
            if m and not line.startswith((' ', '\t')):
                key = m.group(1)
                d[key] = m.group(2).strip()
            elif key:
                d[key] += '\n' + line.strip()
        return d

    def sec(self, name, default=''):
        return self.sections.get(name, default)

    def lst(self, key):
        return self.meta.get(key, '').split()


# ---------------------------------------------------------------- build the C unit
class Unit:
    """One spec, extracted from the current /repo tree."""

    def __init__(self, spec):
        self.spec = spec
        self.info = {}

    def _cut(self, m):
        path = os.path.join(REPO, m['file'])
        src = X.strip_comments(open(path).read())
        kind = m.get('cut', 'function')
        occ = int(m.get('occurrence', '1'))
        if kind == 'function':
            text, s, e = X.cut_function(src, m['signature'], occurrence=occ)
        elif kind == 'member':
            text, s, e = X.cut_member(src, m['class'], m['signature'], occurrence=occ)
        elif kind == 'region':
            if 'class' in m:
                ftext, fs, fe = X.cut_member(src, m['class'], m['signature'], occurrence=occ)
            else:
                ftext, fs, fe = X.cut_function(src, m['signature'], occurrence=occ)
            if 'begin_after' in m:
                text, s, e = X.cut_between(src, ftext, fs, m['begin_after'], m['end_before'])
            else:
                text, s, e = X.cut_region(src, ftext, fs, m['begin'], m['end'])
        else:
            raise X.ExtractError('unknown cut kind ' + kind)
        return src, text, s, e, kind

    def extract(self, mutate=None):
        sp = self.spec
        m = sp.meta
        src, text, s, e, kind = self._cut(m)
        self.info.update(file=m['file'], lines=[X.lineno(src, s), X.lineno(src, e)], sha=X.sha(text), cut=kind)
        extra = []
        rule_text = sp.sec('rules')
        for lib in sp.lst('rules_lib'):
            rule_text += '\n' + open(os.path.join(VERIF, 'contracts', 'lib', lib + '.rules')).read()
        for line in rule_text.split('\n'):
            line = line.strip()
            if not line or line.startswith('#'):
                continue
            nm, pat, rep = line.split(' ::: ')
            extra.append((nm.strip(), pat.strip(), rep.strip() if rep.strip() != '<empty>' else ''))
        drop_text = sp.sec('drop')
        for lib in sp.lst('rules_lib'):
            dp_ = os.path.join(VERIF, 'contracts', 'lib', lib + '.drop')
            if os.path.exists(dp_):
                drop_text += '\n' + open(dp_).read()
        drop = [l.strip() for l in drop_text.split('\n') if l.strip() and not l.startswith('#')]
        rw = X.Rewriter(scalars=sp.lst('scalars') or ['Index', 'IT_', 'DT_'], extra_rules=extra, drop=drop,
                        members=sp.lst('members'), enums=sp.lst('enums'))
        cname = m.get('cname')
        if kind == 'region':
            params = ' '.join(sp.sec('params').split())
            ret = m.get('ret', 'void')
            wrapped = '%s %s(%s)\n{\n%s\n%s}\n' % (ret, cname, params, text, m.get('epilogue', ''))
            ctext = rw.run(wrapped, cname=cname)
        else:
            ctext = rw.run(text, cname=cname)
        self.also = []
        for c in getattr(sp, 'cuts', []):
            cm = dict(c)
            cm.setdefault('file', m['file'])
            csrc, ctxt, cs, ce, ckind = self._cut(cm)
            rw2 = X.Rewriter(scalars=sp.lst('scalars') or ['Index', 'IT_', 'DT_'], extra_rules=extra, drop=drop,
                             members=sp.lst('members'), enums=sp.lst('enums'))
            htxt = rw2.run(ctxt, cname=cm.get('cname'))
            if cm.get('ret') and cm.get('cname'):      # constructors have no return type of their own
                htxt = re.sub(r'^(\s*)' + re.escape(cm['cname']) + r'\s*\(', lambda mm: mm.group(1) + cm['ret'] + ' ' + cm['cname'] + '(', htxt, count=1)
            self.also.append(htxt)
            for k, v in rw2.hits.items():
                rw.hits[k] = rw.hits.get(k, 0) + v
            self.info.setdefault('also_cut', []).append({'name': c['name'], 'file': cm['file'], 'lines': [X.lineno(csrc, cs), X.lineno(csrc, ce)], 'sha': X.sha(ctxt)})
        # rules the contract author saw firing; one that no longer fires is only recorded (the code may legitimately have
        # lost the construct) - leftover C++ syntax makes goto-cc fail, which is reported as 'extraction broke' (exit 2)
        self.info['rules_expected_not_fired'] = [r for r in sp.lst('expect') if rw.hits.get(r, 0) == 0]
        self.info['rules_fired'] = dict(rw.hits)
        self.info['rewrites'] = X.token_audit(text, ctext)[:60]
        self.info['dropped'] = drop
        if mutate:
            pat, rep = mutate
            ctext2, n = re.subn(pat, rep, ctext, count=1)
            if n != 1:
                # try the helper cuts
                for k, t in enumerate(self.also):
                    t2, n = re.subn(pat, rep, t, count=1)
                    if n == 1:
                        self.also[k] = t2
                        break
                if n != 1:
                    raise X.ExtractError('canary pattern did not match: %s' % pat)
            else:
                ctext = ctext2
        self.ctext_plain = ctext
        labels = [l.label for l in X.find_loops(ctext)]
        want = sp.lst('loops')
        self.shape_changed = None
        self.extra_loops = []
        if want and labels != want:
            needed = set(sp.loops)
            for c in sp.configs.values():
                needed |= {it.split(':')[0] for it in c.get('unwind_loops', '').split()}
            if needed <= set(labels) and set(want) <= set(labels):
                # every loop the contract talks about is still there; the code has additional loops.
                # They get unwound with a default bound (unwinding assertions on), the contract is still checked.
                self.extra_loops = [l for l in labels if l not in want]
            else:
                # the loop contracts no longer fit; the driver falls back to a bounded search with the function contract
                self.shape_changed = 'loop shape changed: code has %s, contract written for %s' % (labels, want)
        self.info['loops'] = labels
        return ctext

    def c_source(self, cfg, ctext, with_loop_contracts=True):
        sp = self.spec
        body = ctext
        trig = sp.lst('triggers')
        if trig:
            body, cnt = X.apply_triggers(body, trig)
            self.info['trigger_sites'] = cnt
            for t in trig:
                if cnt.get(t, 0) == 0:
                    raise X.ExtractError('%s: trigger array %s is never read' % (sp.name, t))
        if with_loop_contracts and sp.loops:
            body, _ = X.splice_loops(body, sp.loops)
        contract = sp.sec('contract')
        if contract.strip():
            body = X.splice_contract(body, contract)
        parts = ['/* generated by /verif/xc/engine.py from %s + %s -- do not edit */' % (sp.meta['file'], os.path.relpath(sp.path, VERIF)),
                 '#include "feat_c.h"']
        for lib in sp.lst('uses'):
            parts.append('#include "%s.h"' % lib)
        parts.append(sp.sec('prelude'))
        for t in getattr(self, 'also', []):
            parts.append('/* ---- extracted helper ---- */')
            parts.append(t)
        parts.append('/* ---- extracted from %s:%d-%d ---- */' % (sp.meta['file'], self.info['lines'][0], self.info['lines'][1]))
        parts.append(body)
        parts.append('/* ---- harness ---- */')
        parts.append(sp.sec('harness'))
        return '\n'.join(parts) + '\n'


# ---------------------------------------------------------------- running CBMC
def sh(cmd, timeout, cwd=None, mem_kb=MEM_KB):
    """run a shell command in its own process group; on timeout the whole group (cbmc AND its solver child) is killed"""
    import signal
    t0 = time.time()
    p = subprocess.Popen(['bash', '-c', 'ulimit -v %d; exec %s' % (mem_kb, cmd)], cwd=cwd, stdout=subprocess.PIPE,
                         stderr=subprocess.PIPE, text=True, errors='replace', start_new_session=True)
    try:
        out, err = p.communicate(timeout=timeout)
        return p.returncode, out, err, time.time() - t0
    except subprocess.TimeoutExpired:
        try:
            os.killpg(p.pid, signal.SIGKILL)
        except ProcessLookupError:
            pass
        try:
            out, err = p.communicate(timeout=10)
        except Exception:
            out, err = '', ''
        return -9, out or '', 'TIMEOUT', time.time() - t0


SOLVERS = {
    'sat': '',
    'kissat': '--external-sat-solver kissat',
    'cadical': '--sat-solver cadical',
    'cvc5': '--cvc5',
    'z3': '--z3',
}


class Result:
    def __init__(self, unit, cfgname):
        self.unit, self.cfg = unit, cfgname
        self.status = None        # 'ok' | 'fail' | 'inconclusive'
        self.reason = ''
        self.obligations = []     # dicts: name, desc, status, loc
        self.failed = []
        self.solver_s = 0.0
        self.cmds = []
        self.log = ''
        self.mode = ''
        self.backend = ''
        self.cfile = ''


def run_config(unit, cfgname, workdir, tier='quick', mutate=None, want_trace=False, ctext=None):
    sp = unit.spec
    cfg = sp.configs[cfgname]
    res = Result(unit, cfgname)
    res.mode = cfg.get('mode', 'proof')
    res.backend = cfg.get('solver', 'sat')
    try:
        if ctext is None:
            ctext = unit.extract(mutate=mutate)
        loopc = res.mode == 'proof'
        if getattr(unit, 'shape_changed', None) and sp.loops:
            res.status, res.reason = 'shape', unit.shape_changed
            return res
        csrc = unit.c_source(cfg, ctext, with_loop_contracts=loopc)
    except X.ExtractError as e:
        res.status, res.reason = 'inconclusive', 'extraction broke: %s' % e
        return res
    except (ValueError, IndexError, KeyError, AssertionError) as e:
        res.status, res.reason = 'inconclusive', 'extraction broke (%s: %s)' % (type(e).__name__, e)
        return res
    tag = '%s.%s' % (sp.name, cfgname)
    cfile = os.path.join(workdir, tag + '.c')
    open(cfile, 'w').write(csrc)
    res.cfile = cfile
    defs = ' '.join(shlex.quote(d) for d in cfg.get('defs', '').split())
    inc = '-I%s -I%s' % (os.path.join(HERE, 'shim'), os.path.join(VERIF, 'contracts', 'lib'))
    entry = cfg.get('entry', 'harness')
    a, b = os.path.join(workdir, tag + '.a.gb'), os.path.join(workdir, tag + '.b.gb')
    tmo = int(cfg.get('timeout_thorough' if tier == 'thorough' else 'timeout', cfg.get('timeout', '300')))
    cmd1 = 'goto-cc %s %s --function %s %s -o %s' % (inc, defs, entry, cfile, a)
    rc, out, err, dt = sh(cmd1, 120)
    res.cmds.append(cmd1)
    if rc != 0:
        res.status, res.reason = 'inconclusive', 'goto-cc failed (extraction broke?): ' + (err + out)[-600:]
        res.log = err + out
        return res
    if re.search(r"function '\w+' is not declared", err + out):
        res.status, res.reason = 'inconclusive', 'implicit function declaration (callee cut must precede its caller): ' + re.search(r"function '\w+' is not declared", err + out).group(0)
        return res
    enforce = cfg.get('enforce', sp.meta.get('cname', ''))
    # loops with a compile-time constant trip count and no contract, nested in loops with contracts, are unwound first
    extra = getattr(unit, 'extra_loops', [])
    if cfg.get('unwind_loops') or (extra and enforce and enforce != 'none'):
        ids = {l.label: l.cbmc_id for l in X.find_loops(ctext)}
        us = []
        for item in cfg.get('unwind_loops', '').split() + ['%s:%s' % (l, cfg.get('unwind_extra', '6')) for l in extra]:
            lab, k = item.split(':')
            if lab not in ids:
                res.status, res.reason = 'inconclusive', 'extraction broke: unwind_loops names missing loop ' + lab
                return res
            us.append('%s.%d:%s' % (sp.meta.get('cname'), ids[lab], k))
        us += [x for x in cfg.get('unwindset_gi_raw', '').replace(',', ' ').split()]
        a2 = os.path.join(workdir, tag + '.u.gb')
        gu = 'goto-instrument --unwindset %s --unwinding-assertions %s %s' % (','.join(us), a, a2)
        rc, out, err, dt = sh(gu, 300)
        res.cmds.append(gu)
        if rc != 0:
            res.status, res.reason = 'inconclusive', 'goto-instrument --unwindset failed: ' + (err + out)[-500:]
            return res
        a = a2
    gi = ''
    if enforce and enforce != 'none':
        gi = 'goto-instrument --dfcc %s --enforce-contract %s' % (entry, enforce)
        called = ctext + ''.join(getattr(unit, 'also', []))
        for r in cfg.get('replace', '').split():
            if re.search(r'\b' + re.escape(r) + r'\s*\(', called):   # a callee the cut no longer calls does not exist in the goto model
                gi += ' --replace-call-with-contract %s' % r
        if loopc and sp.loops:
            gi += ' --apply-loop-contracts'
        if cfg.get('nondet_static') == 'yes':
            gi += ' --nondet-static'
        gi += ' %s %s' % (a, b)
        rc, out, err, dt = sh(gi, 300)
        res.cmds.append(gi)
        if rc != 0:
            res.status, res.reason = 'inconclusive', 'goto-instrument failed: ' + (err + out)[-800:]
            res.log = err + out
            return res
        res.log += out + err
    else:
        b = a
    flags = cfg.get('flags', '--bounds-check --pointer-check --pointer-overflow-check --div-by-zero-check')
    unwind = cfg.get('unwind_thorough' if tier == 'thorough' and 'unwind_thorough' in cfg else 'unwind')
    if unwind:
        flags += ' --unwind %s --unwinding-assertions' % unwind
    else:
        pass
    if cfg.get('unwindset'):
        ids = {l.label: l.cbmc_id for l in X.find_loops(ctext)}
        items = ['%s.%d:%s' % (sp.meta.get('cname'), ids[it.split(':')[0]], it.split(':')[1]) for it in cfg['unwindset'].split() if it.split(':')[0] in ids]
        if items:
            flags += ' --unwindset ' + ','.join(items)
    if cfg.get('unwindset_raw'):
        flags += ' --unwindset ' + cfg['unwindset_raw']
    if extra and not unwind:
        flags += ' --unwind %s --unwinding-assertions' % cfg.get('unwind_extra', '6')
        res.reason = 'code has loops the contract does not know (%s): unwound %s times' % (extra, cfg.get('unwind_extra', '6'))
    flags += ' ' + SOLVERS[res.backend]
    if cfg.get('object_bits'):
        flags += ' --object-bits ' + cfg['object_bits']
    if want_trace:
        flags += ' --trace'
    if cfg.get('only_property'):
        flags += ' --property ' + cfg['only_property']
    if cfg.get('stop_on_fail'):
        flags += ' --stop-on-fail'
    cmd3 = 'cbmc %s %s --json-ui --verbosity 6' % (b, flags)
    res.cmds.append(cmd3)
    rc, out, err, dt = sh(cmd3, tmo)
    res.solver_s = dt
    res.log += err
    if err == 'TIMEOUT' and rc == -9:
        res.status, res.reason = 'inconclusive', 'cbmc timeout after %ds' % tmo
        return res
    try:
        js = json.loads(out)
    except Exception:
        res.status, res.reason = 'inconclusive', 'cbmc output not parseable (rc=%s): %s' % (rc, (out + err)[-500:])
        return res
    results = None
    msgs = []
    for item in js:
        if 'result' in item:
            results = item['result']
        elif cfg.get('stop_on_fail') and isinstance(item, dict) and 'property' in item and 'status' in item:
            # --stop-on-fail prints only the first failing property (with its trace), not a result list
            item = dict(item); item['status'] = 'FAILURE' if str(item.get('status', '')).lower() in ('failed', 'failure') else item.get('status')
            results = (results or []) + [item]
        if 'messageText' in item:
            msgs.append(item['messageText'])
    res.messages = msgs
    alltxt = '\n'.join(msgs)
    if results is None:
        res.status, res.reason = 'inconclusive', 'cbmc gave no result list (rc=%s): %s' % (rc, alltxt[-700:])
        return res
    for r in results:
        ob = {'name': r.get('property'), 'desc': r.get('description'), 'status': r.get('status'),
              'line': (r.get('sourceLocation') or {}).get('line'), 'fn': (r.get('sourceLocation') or {}).get('function')}
        if 'trace' in r:
            ob['trace'] = r['trace']
        res.obligations.append(ob)
    res.failed = [o for o in res.obligations if o['status'] == 'FAILURE']
    res.unknown = [o for o in res.obligations if o['status'] not in ('SUCCESS', 'FAILURE')]
    if res.unknown and not res.failed:
        res.status, res.reason = 'inconclusive', '%d obligations left undetermined by cbmc (status %s)' % (len(res.unknown), res.unknown[0]['status'])
        return res
    # tool-trouble filters
    if re.search(r'ignoring (forall|exists)', alltxt):
        res.status, res.reason = 'inconclusive', 'back end ignored a quantifier'
        return res
    nb = re.findall(r'no body for (?:function|callee) (\S+)', alltxt)
    allowed = set(cfg.get('nobody_ok', '').split())
    nb = [n for n in nb if n.strip("'") not in allowed]
    if nb:
        res.status, res.reason = 'inconclusive', 'function without body/contract: %s' % sorted(set(nb))
        return res
    if not res.obligations:
        res.status, res.reason = 'inconclusive', 'zero obligations generated'
        return res
    mino = int(cfg.get('min_obligations', '1'))
    if len(res.obligations) < mino and not res.failed:
        res.status, res.reason = 'inconclusive', 'only %d obligations, spec floor is %d' % (len(res.obligations), mino)
        return res
    if loopc and sp.loops and not cfg.get('only_property') and not cfg.get('stop_on_fail'):
        names = ' '.join(o['name'] or '' for o in res.obligations) + ' '.join(o['desc'] or '' for o in res.obligations)
        n_inv = len(re.findall(r'loop invariant.*(?:before entry|base)', ' '.join((o['desc'] or '') + '\n' for o in res.obligations)))
        n_step = len([o for o in res.obligations if re.search(r'invariant is preserved|loop_invariant_step', (o['desc'] or '') + (o['name'] or ''))])
        if n_step < len(sp.loops) and not res.failed:
            res.status, res.reason = 'inconclusive', 'loop contract silently dropped: %d invariant-step obligations for %d loop contracts' % (n_step, len(sp.loops))
            return res
    unwf = [o for o in res.failed if 'unwinding assertion' in (o['desc'] or '')]
    if unwf and len(unwf) == len(res.failed):
        res.status, res.reason = 'inconclusive', 'unwinding bound too small: ' + unwf[0]['desc']
        return res
    res.status = 'fail' if res.failed else 'ok'
    return res


def reach_probe(unit, cfgname, workdir, ctext):
    """Vacuity guard: assert(0) placed after the call in the harness must FAIL (be reachable)."""
    sp = unit.spec
    if 'REACH_PROBE' not in sp.sec('harness'):
        return None
    cfg = dict(sp.configs[cfgname])
    probe_spec_cfg = cfgname + '__reach'
    n_asserts = sp.sec('harness').count('__CPROVER_assert(') + sp.sec('harness').count('REACH_END()')
    sp.configs[probe_spec_cfg] = dict(cfg, defs=cfg.get('defs', '') + ' -DREACH_PROBE_ON=1', min_obligations='1')
    if n_asserts <= 1:
        sp.configs[probe_spec_cfg]['only_property'] = 'harness.assertion.1'
    else:
        # one satisfying assignment that reaches the end of the harness is enough: stop at the first failing property
        sp.configs[probe_spec_cfg]['stop_on_fail'] = '1'
    old_name = sp.name
    cfg_stop = sp.configs[probe_spec_cfg].get('stop_on_fail')
    try:
        r = run_config(unit, probe_spec_cfg, workdir, ctext=ctext)
    finally:
        del sp.configs[probe_spec_cfg]
    if r.status == 'inconclusive':
        return 'probe inconclusive: ' + r.reason
    hit = [o for o in r.failed if 'reach_end' in (o['desc'] or '')]
    if not hit and cfg_stop and r.failed:
        return None     # another property fails first (reported by the base run): the harness is not vacuous either
    if not hit:
        return 'vacuous: end of harness unreachable (contradictory requires?)'
    return None
