#!/bin/bash
# confirm_mutant.sh <seeded-dir> : confirm a seeded change in the scratch worktree /tmp/wt_time (never in /repo):
#   applies patch, rebuilds, runs the full ctest suite, builds+runs the demo (must fail), reverts, rebuilds, demo must pass.
set -u
D=$(readlink -f $1); W=/tmp/wt_time; ID=$(basename $D); LOG=$D/confirm.log
: > $LOG
cd $W && git checkout -q -- . && git apply $D/patch.diff || { echo "patch does not apply" | tee -a $LOG; exit 2; }
echo "== build with change" >> $LOG
nice ninja -C _build -j${J:-8} >> $LOG.build 2>&1 || { echo "BUILD FAILED with change" | tee -a $LOG; git checkout -q -- .; exit 1; }
echo "== ctest with change" >> $LOG
if [ "${SKIP_CTEST:-0}" = 1 ]; then T=${T_PREV:-skipped}; else
ctest --test-dir _build -j${J:-8} --timeout 900 > $LOG.ctest 2>&1; tail -5 $LOG.ctest >> $LOG
if ! grep -q "100% tests passed" $LOG.ctest; then
  # tests that fail within a second under heavy machine load are re-run once, alone
  echo "== rerun failed (sequential)" >> $LOG
  ctest --test-dir _build --rerun-failed --timeout 900 > $LOG.ctest2 2>&1; tail -5 $LOG.ctest2 >> $LOG
  grep -q "100% tests passed" $LOG.ctest2 && T=pass-after-rerun || T=FAIL
else T=pass; fi
fi
mkdir -p $W/demo_$ID && sed "s#/tmp/mut[0-9]*_[A-Za-z0-9_]*#$W#g" $D/demo/demo.cpp > $W/demo_$ID/demo.cpp
sed "s#/tmp/mut[0-9]*_[A-Za-z0-9_]*#$W#g; s#demo/demo.cpp#demo_$ID/demo.cpp#g; s#demo/demo\b#demo_$ID/demo#g; s#$W/demo\b#$W/demo_$ID#g" $D/demo/build.sh > $W/demo_$ID/build.sh
(cd $W/demo_$ID && bash ./build.sh) >> $LOG 2>&1
DEMO=$(find $W/demo_$ID -maxdepth 1 -type f -executable -name 'demo*' ! -name '*.sh' | head -1)
[ -n "$DEMO" ] || { echo "DEMO NOT BUILT" | tee -a $LOG; git checkout -q -- .; exit 2; }
$DEMO > $LOG.demo_with 2>&1; R1=$?
cd $W && git checkout -q -- . 
echo "== rebuild without change" >> $LOG
nice ninja -C _build -j${J:-8} >> $LOG.build 2>&1
(cd $W/demo_$ID && bash ./build.sh) >> $LOG 2>&1
$DEMO > $LOG.demo_without 2>&1; R2=$?
rm -rf $W/demo_$ID
echo "RESULT id=$ID tests_with_change=$T demo_with_change_rc=$R1 demo_without_change_rc=$R2" | tee -a $LOG
rm -f $LOG.build
