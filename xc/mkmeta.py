#!/usr/bin/env python3
"""mkmeta.py <seeded-dir> [caught_by text]: writes meta.json of a seeded change from the author's meta.agent.json and the
confirmation result (confirm.log written by xc/confirm_mutant.sh)."""
import json, os, re, sys
d = sys.argv[1].rstrip('/')
a = json.load(open(os.path.join(d, 'meta.agent.json')))
log = open(os.path.join(d, 'confirm.log')).read() if os.path.exists(os.path.join(d, 'confirm.log')) else ''
m = re.findall(r'^RESULT .*$', log, flags=re.M)
tests_note = 'full ctest suite (121 tests)'
meta = {
 'id': os.path.basename(d), 'property': a.get('property'), 'breaks': a.get('what'), 'needs_to_manifest': a.get('needs'),
 'files': a.get('files'), 'origin': 'independent sub-agent given only the property text and a scratch worktree',
 'confirmed_by': 'xc/confirm_mutant.sh in scratch worktree /tmp/wt_time: patch applied, full rebuild, %s, demo built and run with and without the change' % tests_note,
 'confirmation': m[-1] if m else 'NOT CONFIRMED', 'agent_tests_run': a.get('tests_run'),
}
if len(sys.argv) > 2:
    meta['caught_by'] = sys.argv[2]
json.dump(meta, open(os.path.join(d, 'meta.json'), 'w'), indent=1)
print(meta['id'], meta['confirmation'])
