"""Claims published in MANIFEST.json (kept here so the manifest can be regenerated and always validates)."""
SOURCE_COMMITS = ['4c1e51521 fix: BCSR row_norm2 square root after block loop', 'd83cc83e0 fix: dunavant:7 centroid weight', '246ad8691 fix: dunavant:18 coordinate typo', 'fb60cf4da fix: empty CSR transpose shape', 'c4b87cbce fix: empty BCSR transpose shape', '0741eb9e8 fix: thread layers with fewer than two workers']
NOTES = ('Contract-based deductive verification with CBMC 6.11: the functions named per property are cut mechanically from /repo on every run, '
         'brought to C by a fixed rewrite table (xc/extract.py), annotated with the contracts in contracts/<id>/*.spec and checked by '
         'goto-instrument --dfcc + cbmc. exit 0 = every obligation discharged; exit 1 = VIOLATION (failed obligation; counterexample replayed '
         'on the real C++ template where found); exit 2 = INCONCLUSIVE (tool trouble, never a verdict). See DESIGN.md.')
T_PROOF = 'CBMC code contracts (requires/ensures/assigns + loop invariants/decreases) on C extracted mechanically from /repo, enforced per function with goto-instrument --dfcc; Kissat/MiniSat/cvc5 back ends'
CHECKS = {
 'C01': dict(level='proof', technique=T_PROOF,
   text='Unbounded proof (all shapes, sparsity patterns, scalars, r==y aliasing) that Apply::csr_generic (both transposed arms) computes a*A*x+b*y row by row in the ring Z/2^8 (ghost prefix sums), plus memory safety, frame (only r written) and termination in double; MemoryPool::set_memory/copy callee contracts proved and used modularly. Slice: CSR kernel + pool helpers only.',
   note='Assumes: ring-transfer argument A-ring (DESIGN §3.4) from Z/2^8 to the reals plus the standard backward-error bound; valid-CSR precondition; generic back end; extraction rewrite table and C shim trusted. NOT covered: BCSR/banded/dense/CSCR kernels, container wrappers (early-outs), meta matrices, MKL/CUDA.'),
 'C02': dict(level='model_checking', technique='CBMC contracts: loop-free method-level shape contracts (proved, callee contracts assumed/replaced) + bounded checking of the counting-sort/transposition loops with unwinding assertions; native replay through the real container classes',
   text='Transposition slice: (proved, loop-free) SparseMatrixCSR/BCSR::transpose of an entry-free matrix and DenseMatrix::transpose(x) end with the transposed SHAPE and dispatch the kernel for exactly x\'s shape, for all shapes of target and source; (bounded) the CSR counting-sort region yields a valid sorted CSR matrix holding exactly the entries (j,i,v), and the dense transpose kernel (also in place) moves x[i][j] to r[j][i].',
   note='Bounded parts: CSR arrays <= 4 elements (thorough 5), dense rows*columns <= 12 (in place 9); labelled bounded, never counted as proved. Assumed contracts: DenseMatrix constructor, Container::move, kernel dispatcher. NOT covered: convert between formats/data types, clone independence, permute of matrices, layout rebuild.'),
 'C03': dict(level='proof', technique=T_PROOF,
   text='Unbounded proofs for the arch kernels of matrix algebra (row/column scaling, lumping, diagonal, row norms, dense products) against the textbook formula per ghost entry.',
   note='Assumes A-ring, valid CSR. NOT covered: add_mat_mat_product/add_double_mat_product merges unless listed in evidence, shrink, exceptions.'),
 'C04': dict(level='proof', technique=T_PROOF,
   text='Unbounded proofs, in every alias configuration the code distinguishes, that axpy, scale, component product/invert/copy, dot, triple-dot, norm2 (sum part), min/max(-abs) index kernels equal their element-wise definition (Z/2^8 for sums and products, IEEE-exact via cvc5 for the division, comparisons in double), with memory safety, frame and termination in double.',
   note='Assumes A-ring; sqrt abstracted; size>0 for min/max index kernels (they read x[0]); stride fixed to 2,3,4 for ComponentCopy. NOT covered: blocked/tuple/power/sparse vectors, container wrappers.'),
 'C06': dict(level='proof', technique=T_PROOF,
   text='Unbounded proofs that the unit-filter kernels (scalar and blocked, both ignore-NaN arms) and the filter_mat loop regions (CSR and BCSR) set exactly the constrained entries (bit-exact copies / unit rows), skip NaN components when asked, and leave every other entry untouched, for all index sets, sizes and sparsity patterns.',
   note='Assumes: filter indices pairwise distinct and in range, valid CSR/BCSR layout (row-of-entry ghost), block sizes {2,3}; code around the cut regions (early-outs, accessors) is trusted. NOT covered: slip-filter normal component values, mean filter, filter chains/sequences, Global::Filter.'),
 'C05': dict(level='proof', technique=T_PROOF + '; loop-free lemma harness over the real encoder and decoder',
   text='Codec slice of the binary persistence path: SwapHelper<2|4|8>::swap reverse the bytes for all 2^16/2^32/2^64 values (involution); xencode/xdecode convert element-wise for all array lengths, both byte-order arms, return count*sizeof(X_) and write only their destination; lemma decode(encode(v)) == v for every value representable in the file type.',
   note='Instantiations (u32,u64) (i32,i64) (u64,u64) (i64,i64) (u16,u64) fully, (f32,f64) (f64,f64) safety/frame/no-swap arm + round trip (NaN payloads excluded). NOT covered (outside this technique: std::vector<char>/iostream/zlib/if-constexpr code): Container::_serialize/_deserialize, checkpoint size bookkeeping of meta containers, MatrixMarket/exp text modes, BinaryStream, CheckpointControl, DistFileIO.'),
 'C07': dict(level='proof', technique='CBMC code contracts on the convergence-control methods cut from IterativeSolver (loop-free, all double inputs symbolic), cvc5 back end; callee contracts used modularly',
   text='Control slice: for all double defect values (incl. NaN/inf) and all limit settings, is_converged/is_diverged/_analyse_defect/_update_defect/_set_initial_defect(tail)/status_success return exactly the status the configured tolerances, divergence bounds, iteration limits and stagnation settings prescribe for the defect norms they are given, and update iteration/stagnation counters and stored defects consistently.',
   note='Decides status truthfulness GIVEN that _def_cur is the norm the solver computed. NOT covered (outside this technique): that the Krylov recurrences make that norm the true residual, convergence to the reference solution, rhs-unmodified, apply-ignores-start-vector; _set_new_defect (vector norm call), plotting/statistics lines are dropped from the cuts.'),
 'C14': dict(level='proof', technique='closed IEEE-754 evaluation by CBMC of the table-driven fill() functions cut from /repo (no symbolic input; finite, exhaustive), one named obligation per rule and point count',
   text='For dunavant:2..20, shunn-ham:2..6, lauffer-degree-2, hammer-stroud-degree-3 (dims 2,3) and the refine: prefix on all five shapes: the rule writes exactly its advertised number of points, weights sum to the reference volume and every monomial up to the nominal degree is integrated within 5e-13.',
   note='Tolerance 5e-13 absolute and the nominal degrees are part of the specification. Rule accessors rewritten to arrays. NOT covered: drivers computing points with sqrt/cos (Gauss-Legendre/Lobatto, Hammer-Stroud D2/D5: CBMC does not constant-fold libm), silvester, trapezoidal/barycentre, tensor-product composition, DynamicFactory name parsing.'),
 'C17': dict(level='model_checking', technique='CBMC bounded checking (unwinding assertions) of the thread-layer distribution method cut from DomainAssembler, std::vector members modelled as bounds-asserting arrays; native replay on the real DomainAssembler',
   text='Work-distribution slice: for every requested worker count <= 5 (thorough 8), up to 12 (20) layers of arbitrary sizes, _build_thread_layers never indexes a vector out of range, ends with 0 workers (threading off) or >= 2 workers, and gives every worker at least two consecutive layers covering [0, num_layers) exactly - the sequential facts the fence protocol relies on.',
   note='Bounded (never counted as proved). NOT covered (outside this technique): race freedom, deadlock freedom and result equality over thread interleavings (std::thread/condition_variable), fence reset between jobs, colour construction.'),
 'C13': dict(level='proof', technique=T_PROOF,
   text='Kernel-level slice only: unbounded proofs that Mirror gather/scatter kernels stay in bounds, write only their target range, add alpha*buf to each mirrored entry exactly once (distinct mirror indices) and leave non-mirrored entries unchanged.',
   note='Decides only the per-patch gather/scatter step. NOT covered (outside this technique): Gate/Muxer/Splitter, MPI communication, process-count and message-schedule quantifiers.'),
}
NOT_APPLICABLE = {
 'C11': 'XML/mesh/config parsers are std::string/iostream/std::map code whose specified failure mode is a C++ exception; nothing survives the C extraction and CBMC has no model of these library types.',
 'C12': 'Partitioning/halo construction is a relation between several std::vector/std::map/MeshPart object graphs; no per-function contract in the C subset can state it.',
 'C15': 'Finite-element basis identities are calculus over the reals on Tiny::Vector/Matrix member templates; CBMC has no differentiation and the identities hold only up to rounding.',
 'C16': 'Assembly exactness goes through the C15 evaluators and cubature objects; the one C-like piece (ScatterAxpy) needs the symbolic pattern relation to SymbolicAssembler adjactors.',
 'C18': 'Grid-transfer exactness/adjointness inverts local mass matrices with floating-point pivoting inside C15/C16 machinery; numerical identities up to rounding on objects that cannot be extracted.',
}

PLANNED = {
 'C08': 'SOR/SSOR sweep regions (DESIGN §5 C08)',
 'C09': 'multigrid cycle control (DESIGN §5 C09)',
 'C10': 'orientation codes and per-cell refinement tables (DESIGN §5 C10)',
 'C19': 'permutation / colouring / graph transpose (DESIGN §5 C19)',
 'C20': 'MemoryPool reference-count core (DESIGN §5 C20)',
}
