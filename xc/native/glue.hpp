// helpers for native replays through the real FEAT3 container classes (used by @@native_glue sections)
#pragma once
#include <kernel/lafem/sparse_matrix_csr.hpp>
#include <kernel/lafem/dense_vector.hpp>
namespace VerifGlue {
  using namespace FEAT;
  template<typename DT, typename IT>
  LAFEM::SparseMatrixCSR<DT, IT> make_csr(Index rows, Index cols, Index nnz, const IT* rp, const IT* ci, const DT* val)
  {
    LAFEM::SparseMatrixCSR<DT, IT> m(rows, cols, nnz);
    for(Index i = 0; i <= rows; ++i) m.row_ptr()[i] = rp[i];
    for(Index i = 0; i < nnz; ++i) { m.col_ind()[i] = ci[i]; m.val()[i] = val[i]; }
    return m;
  }
}
