// Native replay for C14: creates the named rule with the real Cubature::DynamicFactory and prints every monomial of
// total degree <= DEG whose quadrature value differs from the exact integral by more than TAU.  exit 1 iff any.
// usage: cubature_replay <simplex|hypercube> <dim> <rule-name> <degree> [tau]
#include <kernel/base_header.hpp>
#include <kernel/cubature/dynamic_factory.hpp>
#include <kernel/cubature/rule.hpp>
#include <kernel/shape.hpp>
#include <cstdio>
#include <cstdlib>
#include <cmath>
#include <string>
using namespace FEAT;
static long double fact(int n) { long double f = 1; for(int i = 2; i <= n; ++i) f *= i; return f; }
template<typename Shape_>
int run(bool simplex, const std::string& name, int deg, double tau)
{
  Cubature::Rule<Shape_, double, double> rule;
  if(!Cubature::DynamicFactory::create(rule, name)) { std::printf("rule '%s' refused by the factory\n", name.c_str()); return 2; }
  const int dim = Shape_::dimension;
  int n = rule.get_num_points(), bad = 0;
  long double ws = 0; for(int i = 0; i < n; ++i) ws += rule.get_weight(i);
  long double vol = simplex ? 1.0L / fact(dim) : std::pow(2.0L, dim);
  std::printf("%s: %d points, weight sum %.17Lg (reference volume %.17Lg)\n", name.c_str(), n, ws, vol);
  if(std::fabs((double)(ws - vol)) > tau) { ++bad; std::printf("  FAIL weight sum\n"); }
  for(int a = 0; a <= deg; ++a) for(int b = 0; b <= (dim >= 2 ? deg - a : 0); ++b) for(int c = 0; c <= (dim >= 3 ? deg - a - b : 0); ++c)
  {
    long double q = 0;
    for(int i = 0; i < n; ++i)
    {
      long double t = rule.get_weight(i);
      t *= std::pow((long double)rule.get_coord(i, 0), a);
      if(dim >= 2) t *= std::pow((long double)rule.get_coord(i, 1), b);
      if(dim >= 3) t *= std::pow((long double)rule.get_coord(i, 2), c);
      q += t;
    }
    long double e;
    if(simplex) e = fact(a) * fact(b) * fact(c) / fact(a + b + c + dim);
    else { e = (a % 2) ? 0 : 2.0L / (a + 1); if(dim >= 2) e *= (b % 2) ? 0 : 2.0L / (b + 1); if(dim >= 3) e *= (c % 2) ? 0 : 2.0L / (c + 1); }
    if(std::fabs((double)(q - e)) > tau) { ++bad; std::printf("  FAIL x^%d y^%d z^%d (degree %d): quadrature %.17Lg exact %.17Lg diff %.3Lg\n", a, b, c, a + b + c, q, e, q - e); }
  }
  std::printf(bad ? "REPLAY-REPRODUCED %d failing check(s)\n" : "all monomials up to degree %d exact (0 failures) %d\n", bad ? bad : deg, bad);
  return bad ? 1 : 0;
}
int main(int argc, char** argv)
{
  if(argc < 5) return 3;
  bool simplex = std::string(argv[1]) == "simplex"; int dim = std::atoi(argv[2]); std::string name = argv[3]; int deg = std::atoi(argv[4]);
  double tau = argc > 5 ? std::atof(argv[5]) : 5e-13;
  if(simplex) { if(dim == 1) return run<Shape::Simplex<1>>(true, name, deg, tau); if(dim == 2) return run<Shape::Simplex<2>>(true, name, deg, tau); return run<Shape::Simplex<3>>(true, name, deg, tau); }
  if(dim == 1) return run<Shape::Hypercube<1>>(false, name, deg, tau); if(dim == 2) return run<Shape::Hypercube<2>>(false, name, deg, tau); return run<Shape::Hypercube<3>>(false, name, deg, tau);
}
