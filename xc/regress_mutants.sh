#!/bin/bash
# regress_mutants.sh [id ...]: run the property check of every seeded change against a patched COPY of /repo
# (FEAT_REPO), with all outputs redirected (VERIF_OUT), so /repo, /verif/evidence and /verif/replays are not touched.
# Prints one line per seeded change: caught (rc=1), missed (rc=0) or inconclusive (rc=2).
cd /verif
IDS=${@:-$(ls seeded)}
for ID in $IDS; do
  P=${ID%%_*}; M=/tmp/mrepo_$ID; O=/tmp/mout_$ID
  rm -rf $M $O; mkdir -p $M/_build $O
  rsync -a --exclude _build --exclude .git /repo/ $M/ && cp /repo/_build/feat_config.hpp $M/_build/ 2>/dev/null
  if ! (cd $M && patch -p1 -s < /verif/seeded/$ID/patch.diff); then echo "$ID patch-does-not-apply"; rm -rf $M $O; continue; fi
  FEAT_REPO=$M VERIF_OUT=$O ./check $P > $O/log 2>&1; rc=$?
  echo "$ID rc=$rc :: $(grep -E '^VIOLATION|^INCONCLUSIVE' $O/log | head -2 | sed 's#/tmp/mout_[A-Za-z0-9_]*/##' | tr '\n' ' ' | cut -c1-260) :: $(tail -1 $O/log | cut -c1-140)"
  rm -rf $M $O
done
