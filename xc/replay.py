#!/usr/bin/env python3
"""Failure path (DESIGN §3.5): failed obligation -> bounded counterexample search with the *same*
contract -> native replay of the concrete input against the real C++ template in /repo.

The bounded harness is derived mechanically from the contract text:
  requires(is_fresh(p, N*sizeof(T)))  ->  static T in_p[B]; p = in_p; assume(N <= B)
  requires(e)                         ->  assume(e)
  ensures(e)                          ->  assert(e)          (named post.<k>)
  @@fullpre                           ->  assume(full quantified precondition)  (loops are fine here)
and run by CBMC with --nondet-static --trace.  The trace values of every in_* object and ghost are
then compiled into a C++ program that includes the real header from /repo, calls the real template,
and re-evaluates the contract's requires/ensures expressions (AddressSanitizer on for safety)."""
import os, re, sys, json, time, subprocess, shutil
HERE = os.path.dirname(os.path.abspath(__file__))
VERIF = os.path.dirname(HERE)
import extract as X
import engine as E

BOUND = 4


def preprocess(text, defs):
    """Tiny #if/#ifdef/#ifndef/#else/#endif evaluator for contract text (defined-ness and  NAME==int only)."""
    dd = {}
    for d in defs.split():
        if d.startswith('-D'):
            k, _, v = d[2:].partition('=')
            dd[k] = v or '1'
    out = []
    stack = []
    for line in text.split('\n'):
        st = line.strip()
        m = re.match(r'#\s*(ifdef|ifndef|if|elif|else|endif)\b\s*(.*)$', st)
        if m:
            kw, arg = m.group(1), m.group(2).strip()
            if kw == 'ifdef':
                stack.append(arg in dd)
            elif kw == 'ifndef':
                stack.append(arg not in dd)
            elif kw == 'if':
                stack.append(_eval_if(arg, dd))
            elif kw == 'else':
                stack[-1] = not stack[-1]
            elif kw == 'endif':
                stack.pop()
            continue
        if all(stack):
            out.append(line)
    return '\n'.join(out)


def _eval_if(arg, dd):
    e = re.sub(r'defined\s*\(\s*(\w+)\s*\)', lambda m: '1' if m.group(1) in dd else '0', arg)
    e = re.sub(r'\b([A-Za-z_]\w*)\b', lambda m: dd.get(m.group(1), '0'), e)
    e = e.replace('&&', ' and ').replace('||', ' or ').replace('!', ' not ').replace(' not =', '!=')
    try:
        return bool(eval(e))
    except Exception:
        return False


def clauses(contract):
    """-> list of (kind, expr) for __CPROVER_requires/ensures/assigns."""
    out = []
    i = 0
    rx = re.compile(r'__CPROVER_(requires|ensures|assigns)\s*\(')
    while True:
        m = rx.search(contract, i)
        if not m:
            break
        po = m.end() - 1
        pc = X.match_close(contract, po)
        out.append((m.group(1), ' '.join(contract[po + 1:pc].split())))
        i = pc + 1
    return out


def parse_params(ctext):
    po = ctext.index('(')
    pc = X.match_close(ctext, po)
    head = ctext[:po].split()
    ret = ' '.join(head[:-1])
    name = head[-1]
    params = []
    for p in X.split_args(ctext[po + 1:pc]):
        p = ' '.join(p.split())
        if not p or p == 'void':
            continue
        m = re.match(r'(.*?)(\w+)$', p)
        ty, nm = m.group(1).strip(), m.group(2)
        params.append((ty, nm))
    return ret, name, params


def base_type(ty):
    return re.sub(r'\bconst\b|\*|\bvolatile\b', ' ', ty).strip()


GHOST_TYPES = r'(?:Index|DT_|IT_|int|bool|double|float|unsigned|size_t|u?int(?:8|16|32|64)_t)'


def ghost_decls(prelude):
    """Global ghost declarations in the prelude:  `Index gk;`  `const DT_ *S;`  `DT_ y0gk;`"""
    out = []
    for m in re.finditer(r'^((?:const\s+)?' + GHOST_TYPES + r'(?:\s+const)?\s*\**)\s*(\w+(?:\s*,\s*\**\s*\w+)*)\s*;', prelude, flags=re.M):
        ty = m.group(1).strip()
        for nm in m.group(2).split(','):
            nm = nm.strip()
            ptr = '*' in ty or nm.startswith('*')
            out.append((ty, nm.lstrip('* '), ptr))
    return out


class Bounded:
    def __init__(self, sp, unit, cfgname, ctext, bound=BOUND):
        self.sp, self.unit, self.cfgname, self.bound = sp, unit, cfgname, bound
        cfg = sp.configs[cfgname]
        self.defs = cfg.get('defs', '')
        self.contract = preprocess(sp.sec('contract'), self.defs)
        self.prelude = sp.sec('prelude')
        self.cl = clauses(self.contract)
        self.ret, self.fname, self.params = parse_params(ctext)
        self.ctext = ctext
        self.fresh = []     # (ptrname, size_expr_elems, elemtype)
        self.pre = []
        self.post = []
        self.alias = []
        pnames = {n for _, n in self.params}
        ptrs = {n for t, n in self.params if '*' in t}
        lib_ghosts = []
        for lib in sp.lst('uses'):
            lib_ghosts += ghost_decls(open(os.path.join(VERIF, 'contracts', 'lib', lib + '.h')).read())
        self.ghosts = ghost_decls(preprocess(self.prelude, self.defs)) + [g for g in lib_ghosts if not g[2]]
        gptr = {n for _, n, p in self.ghosts if p}
        for kind, e in self.cl:
            if kind == 'requires':
                m = re.fullmatch(r'__CPROVER_is_fresh\s*\(\s*(\w+)\s*,\s*(.*)\)', e)
                if m:
                    nm, size = m.group(1), m.group(2).strip()
                    ms = re.fullmatch(r'(.*)\*\s*sizeof\s*\(\s*([\w ]+?)\s*\)', size)
                    if not ms:
                        raise X.ExtractError('bounded: cannot parse is_fresh size %r' % size)
                    self.fresh.append((nm, ms.group(1).strip(), ms.group(2).strip()))
                    continue
                m = re.fullmatch(r'(\w+)\s*==\s*(\w+)', e)
                if m and m.group(1) in ptrs and m.group(2) in ptrs:
                    self.alias.append((m.group(1), m.group(2)))
                    continue
                if '__CPROVER_is_fresh' in e:
                    raise X.ExtractError('bounded: is_fresh inside a compound requires: %r' % e)
                self.pre.append(e)
            elif kind == 'ensures':
                self.post.append(e)

    def snapshots(self):
        """non-const fresh pointer parameters get a snapshot array old_<name> (visible to full_pre/full_post)."""
        out = []
        for nm, size, ty in self.fresh:
            pty = [t for t, n in self.params if n == nm]
            if pty and not re.search(r'\bconst\b', pty[0].split('*')[0]):
                out.append((nm, size, ty))
        return out

    def harness_c(self):
        B = self.bound
        L = ['/* ---- bounded harness (generated from the contract) ---- */']
        fresh_names = {n for n, _, _ in self.fresh}
        for nm, size, ty in self.fresh:
            L.append('static %s in_%s[%d];' % (ty, nm, B + 1))
        for nm, size, ty in self.snapshots():
            L.append('static %s old_%s[%d];' % (ty, nm, B + 1))
        for ty, nm in self.params:
            if '*' not in ty:
                L.append('static %s in_%s;' % (base_type(ty), nm))
        L.append('#define POSTCHECK(c, name) __CPROVER_assert(c, name)')
        L.append(self.sp.sec('fullpre'))
        L.append(self.sp.sec('fullpost'))
        L.append('void bharness(void)\n{')
        for ty, nm in self.params:
            bt = base_type(ty)
            if '*' in ty:
                if nm in fresh_names:
                    L.append('  %s * %s = in_%s;' % (bt, nm, nm))
                else:
                    tgt = [b for a_, b in self.alias if a_ == nm]
                    L.append('  %s * %s = %s;' % (bt, nm, tgt[0] if tgt else 'NULL'))
            else:
                L.append('  %s %s = in_%s;' % (bt, nm, nm))
        for gty, gnm, gptr in self.ghosts:
            if gptr and gnm in fresh_names:
                L.append('  %s = in_%s;' % (gnm, gnm))
        for nm, size, ty in self.fresh:
            L.append('  __CPROVER_assume((%s) <= %d);' % (size, B))
        for e in self.pre:
            L.append('  __CPROVER_assume(%s);' % e)
        if self.sp.sec('fullpre').strip():
            L.append('  __CPROVER_assume(full_pre(%s));' % ', '.join(n for _, n in self.params))
        for nm, size, ty in self.snapshots():
            L.append('  for(Index k_ = 0; k_ < %d; ++k_) old_%s[k_] = in_%s[k_];' % (B + 1, nm, nm))
        args = ', '.join(n for _, n in self.params)
        if self.ret.replace('static', '').replace('inline', '').strip() not in ('void', ''):
            L.append('  %s ret = %s(%s);' % (self.ret, self.fname, args))
        else:
            L.append('  %s(%s);' % (self.fname, args))
        for k, e in enumerate(self.post):
            e2 = e.replace('__CPROVER_return_value', 'ret')
            L.append('  __CPROVER_assert(%s, "post.%d: %s");' % (e2, k + 1, e.replace('"', "'")[:160]))
        if self.sp.sec('fullpost').strip():
            L.append('  full_post(%s);' % args)
        L.append('}')
        return '\n'.join(L)

    def c_source(self):
        sp = self.sp
        body = self.ctext
        trig = sp.lst('triggers')
        if trig:
            body, _ = X.apply_triggers(body, trig)
        parts = ['#include "feat_c.h"']
        for lib in sp.lst('uses'):
            parts.append('#include "%s.h"' % lib)
        parts += [self.prelude, body, self.harness_c()]
        return '\n'.join(parts) + '\n'


def impl_to_c(e):
    """CBMC's `A ==> B` (lowest precedence, right associative) -> `(!(A) || (B))`, recursively."""
    # first rewrite inside every parenthesised group
    out = []
    i = 0
    while i < len(e):
        if e[i] == '(':
            j = X.match_close(e, i)
            out.append('(' + impl_to_c(e[i + 1:j]) + ')')
            i = j + 1
        else:
            out.append(e[i])
            i += 1
    e = ''.join(out)
    # now split this level at top-level ==>
    depth = 0
    for i in range(len(e)):
        c = e[i]
        if c in '([':
            depth += 1
        elif c in ')]':
            depth -= 1
        elif depth == 0 and e.startswith('==>', i):
            return '(!(%s) || (%s))' % (e[:i].strip(), impl_to_c(e[i + 3:]).strip())
    return e


def trace_values(trace):
    """name -> {index or None: (data, binary, type)} of the *first* assignment to each in_*/ghost lvalue."""
    vals = {}
    for st in trace:
        if st.get('stepType') != 'assignment':
            continue
        lhs = st.get('lhs', '')
        v = st.get('value', {})
        fn = (st.get('sourceLocation') or {}).get('function', '')
        walk_value(lhs, v, vals)
    return vals


def walk_value(lhs, v, vals):
    if 'elements' in v:
        for el in v['elements']:
            walk_value('%s[%s]' % (lhs, el.get('index')), el.get('value', {}), vals)
        return
    if 'members' in v:
        for mb in v['members']:
            walk_value('%s.%s' % (lhs, mb.get('name')), mb.get('value', {}), vals)
        return
    m = re.fullmatch(r'(\w+)(?:\[(\d+)l?\])?', lhs)
    if not m:
        return
    nm, idx = m.group(1), (int(m.group(2)) if m.group(2) is not None else None)
    d = vals.setdefault(nm, {})
    if idx not in d:
        d[idx] = (v.get('data'), v.get('binary'), v.get('name'), v.get('type'))


def lit(valtuple, ty):
    data, binary, name, vtype = valtuple
    if name == 'float' or (vtype or '').startswith(('double', 'float')):
        if binary and len(binary) == 64:
            return 'bits2d(0x%016xULL)' % int(binary, 2)
        if binary and len(binary) == 32:
            return 'bits2f(0x%08xU)' % int(binary, 2)
        return str(data)
    if binary is not None and name in ('integer', 'unsignedbv', 'signedbv') or (binary and set(binary) <= {'0', '1'}):
        n = int(binary, 2)
        if (name == 'signedbv' or (vtype or '').startswith(('signed', 'int', 'long', 'char')) and not (vtype or '').startswith('unsigned')) and binary[0] == '1' and name != 'unsignedbv':
            if not (vtype or '').startswith('unsigned') and 'unsigned' not in (vtype or ''):
                n -= 1 << len(binary)
        return '%dLL' % n if n < 0 else '%dULL' % n
    if data in ('TRUE', 'FALSE'):
        return '1' if data == 'TRUE' else '0'
    return str(data)


NATIVE_HEAD = r'''// generated by /verif/xc/replay.py -- native replay of a CBMC counterexample against the real FEAT3 code
#include <kernel/base_header.hpp>
#include <cstdio>
#include <cstdlib>
#include <cstring>
#include <cstdint>
#include <cmath>
%(ring_class)s
#include <kernel/util/math.hpp>
%(ring_glue)s
#include <%(header)s>
%(extra_includes)s
using namespace FEAT;
typedef %(DT)s DT_;
typedef %(IT)s IT_;
%(typedefs)s
static inline double bits2d(unsigned long long b) { double d; std::memcpy(&d, &b, 8); return d; }
static inline float bits2f(unsigned b) { float d; std::memcpy(&d, &b, 4); return d; }
#define __CPROVER_assume(c) ((void)0)
#define __CPROVER_requires(...)
#define __CPROVER_ensures(...)
#define __CPROVER_assigns(...)
#define __CPROVER_isfinited(x) std::isfinite(x)
#define __CPROVER_isnand(x) std::isnan(x)
#define __CPROVER_fabs(x) std::fabs(x)
#define FEAT_abs(x) ((x) < 0 ? -(x) : (x))
#define FEAT_min(a, b) ((a) < (b) ? (a) : (b))
#define FEAT_max(a, b) ((a) < (b) ? (b) : (a))
#define FEAT_eps(T) %(eps)s
#define NMAX 0x3fffffffUL
#define SAME(a, b) ((a) == (b) || ((a) != (a) && (b) != (b)))
#define MP_SAME(a, b) SAME(a, b)
'''

RING_CLASS = r'''
// Z/2^8 with exactly the semantics of the verifier's DT_=uint8_t instantiation
struct Z256 {
  unsigned char v;
  Z256() : v(0) {}
  Z256(int x) : v((unsigned char)x) {}
  Z256(unsigned x) : v((unsigned char)x) {}
  Z256(long x) : v((unsigned char)x) {}
  Z256(unsigned long x) : v((unsigned char)x) {}
  Z256(unsigned long long x) : v((unsigned char)x) {}
  Z256(long long x) : v((unsigned char)x) {}
  Z256(double x) : v((unsigned char)(long long)x) {}
  Z256& operator+=(Z256 o) { v = (unsigned char)(v + o.v); return *this; }
  Z256& operator-=(Z256 o) { v = (unsigned char)(v - o.v); return *this; }
  Z256& operator*=(Z256 o) { v = (unsigned char)(v * o.v); return *this; }
  Z256& operator/=(Z256 o) { v = (unsigned char)(v / o.v); return *this; }
  Z256 operator-() const { return Z256(-(int)v); }
};
inline Z256 operator+(Z256 a, Z256 b) { return Z256(a.v + b.v); }
inline Z256 operator-(Z256 a, Z256 b) { return Z256(a.v - b.v); }
inline Z256 operator*(Z256 a, Z256 b) { return Z256(a.v * b.v); }
inline Z256 operator/(Z256 a, Z256 b) { return Z256(a.v / b.v); }
inline bool operator==(Z256 a, Z256 b) { return a.v == b.v; }
inline bool operator!=(Z256 a, Z256 b) { return a.v != b.v; }
inline bool operator<(Z256 a, Z256 b) { return a.v < b.v; }
inline bool operator>(Z256 a, Z256 b) { return a.v > b.v; }
inline bool operator<=(Z256 a, Z256 b) { return a.v <= b.v; }
inline bool operator>=(Z256 a, Z256 b) { return a.v >= b.v; }
#include <kernel/util/type_traits.hpp>
namespace FEAT { namespace Type { template<> struct Traits<Z256> { static constexpr bool is_int = false; static constexpr bool is_float = true; static constexpr bool is_bool = false; static constexpr bool is_signed = false; typedef Z256 DataType; static String name() { return "Z256"; } }; } }
'''
RING_GLUE = r'''
namespace FEAT { namespace Math { template<> inline Z256 eps<Z256>() { return Z256(0); } template<> inline Z256 abs<Z256>(Z256 x) { return x; } } }
'''


class Native:
    def __init__(self, bd, vals):
        self.bd, self.vals = bd, vals

    def source(self):
        bd, sp, vals = self.bd, self.bd.sp, self.vals
        dd = {}
        for d in bd.defs.split():
            if d.startswith('-D'):
                k, _, v = d[2:].partition('=')
                dd[k] = v or '1'
        DT = dd.get('DT_', 'double')
        IT = dd.get('IT_', 'unsigned int')
        if sp.meta.get('native_dt'):
            # region cuts are replayed through the real container classes, instantiated with double: the ring
            # counterexample consists of integers < 256, every intermediate value is an exact integer < 2^53
            DT = sp.meta['native_dt']
            dd = dict(dd, DT_=DT)
        ring = DT in ('uint8_t', 'unsigned char')
        head = NATIVE_HEAD % dict(
            ring_class=RING_CLASS if ring else '', ring_glue=RING_GLUE if ring else '',
            header=sp.meta.get('native_header', 'kernel/util/math.hpp'), extra_includes='\n'.join('#include <%s>' % h for h in sp.lst('native_includes')) + ('\n#include "%s"' % os.path.join(HERE, 'native', 'glue.hpp') if sp.sec('native_glue').strip() else ''),
            DT='Z256' if ring else DT, IT={'uint32_t': 'std::uint32_t', 'uint64_t': 'std::uint64_t'}.get(IT, IT),
            typedefs='\n'.join('typedef %s %s;' % (v, k) for k, v in dd.items() if k not in ('DT_', 'IT_') and re.fullmatch(r'[\w ]+_t|double|float|int|unsigned', v) and k.endswith('_')),
            eps='DT_(0)' if ring else '2.220446049250313080847263336181640625e-16')
        L = [head]
        for k, v in dd.items():
            if k not in ('DT_', 'IT_') and not (k.endswith('_') and re.fullmatch(r'[\w ]+_t|double|float|int|unsigned', v)):
                L.append('#define %s %s' % (k, v))
        for lib in sp.lst('uses'):
            txt = open(os.path.join(VERIF, 'contracts', 'lib', lib + '.h')).read()
            for gty, gnm, gptr in ghost_decls(txt):
                if not gptr:
                    L.append('%s %s;' % (gty, gnm))
        L.append(preprocess(bd.prelude, bd.defs))
        L.append('static int n_pre_bad = 0, n_post_bad = 0;')
        L.append('#define CHECK_PRE(e) do { if(!(e)) { ++n_pre_bad; std::printf("REPLAY-INVALID precondition does not hold on this input: %s\\n", #e); } } while(0)')
        L.append('#define CHECK_POST(k, e) do { if(!(e)) { ++n_post_bad; std::printf("POSTCONDITION-FAILS post.%d: %s\\n", k, #e); } else std::printf("postcondition holds post.%d\\n", k); } while(0)')
        L.append('#define POSTCHECK(c, name) do { if(!(c)) { ++n_post_bad; std::printf("POSTCONDITION-FAILS %s\\n", name); } } while(0)')
        for nm, size, ty in bd.snapshots():
            L.append('static %s old_%s[%d];' % (base_type(ty), nm, bd.bound + 1))
        L.append('/*FULLPRE*/')
        L.append(sp.sec('fullpost'))
        L.append('int main()\n{')
        fresh = {n: (size, ty) for n, size, ty in bd.fresh}
        # scalars first (sizes depend on them)
        for ty, nm in bd.params:
            if '*' not in ty:
                v = vals.get('in_' + nm, {}).get(None)
                L.append('  %s %s = (%s)(%s);' % (base_type(ty), nm, base_type(ty), lit(v, ty) if v else '0'))
        for gty, gnm, gptr in bd.ghosts:
            if not gptr:
                v = vals.get(gnm, {}).get(None)
                L.append('  %s = (%s)(%s);' % (gnm, base_type(gty), lit(v, gty) if v else '0'))

        def alloc(nm, bt):
            size, ty = fresh[nm]
            L.append('  %s * %s_mem = (%s *)std::malloc(((%s) + 0) * sizeof(%s) + 0); /* exact size: ASan sees overruns */' % (bt, nm, bt, size, bt))
            arr = vals.get('in_' + nm, {})
            for idx in sorted(k for k in arr if k is not None):
                L.append('  if(%d < (%s)) %s_mem[%d] = (%s)(%s);' % (idx, size, nm, idx, bt, lit(arr[idx], ty)))
        for ty, nm in bd.params:
            if '*' in ty and nm in fresh:
                bt = base_type(ty)
                alloc(nm, bt)
                L.append('  %s * %s = %s_mem;' % (bt, nm, nm))
        for ty, nm in bd.params:
            if '*' in ty and nm not in fresh:
                tgt = [b for a_, b in bd.alias if a_ == nm]
                L.append('  %s * %s = %s;' % (base_type(ty), nm, tgt[0] if tgt else 'nullptr'))
        for gty, gnm, gptr in bd.ghosts:
            if gptr and gnm in fresh:
                bt = base_type(gty)
                alloc(gnm, bt)
                L.append('  %s = %s_mem;' % (gnm, gnm))
        for nm, size, ty in bd.fresh:
            pass
        for e in bd.pre:
            if '__CPROVER' in e:
                continue
            L.append('  CHECK_PRE(%s);' % impl_to_c(e))
        if sp.sec('fullpre').strip():
            L.append('  CHECK_PRE(full_pre(%s));' % ', '.join(n for _, n in bd.params))
        L.append('  if(n_pre_bad) { std::printf("REPLAY-INVALID\\n"); return 3; }')
        for nm, size, ty in bd.snapshots():
            L.append('  for(Index k_ = 0; k_ < (Index)(%s) && k_ < %d; ++k_) old_%s[k_] = %s[k_];' % (size, bd.bound + 1, nm, nm))
        args = ', '.join(n for _, n in bd.params)
        if sp.sec('native_glue').strip():
            L.append('  { /* native glue: run the real FEAT3 method on these arrays */')
            L.append(sp.sec('native_glue'))
            L.append('  }')
        else:
            call = sp.meta.get('native_call')
            targs = sp.meta.get('native_targs', 'DT_ IT_').split()
            if targs and targs != ['none']:
                call += '<' + ', '.join(targs) + '>'
            if bd.ret.strip() not in ('void', ''):
                L.append('  auto ret = %s(%s);' % (call, args))
            else:
                L.append('  %s(%s);' % (call, args))
        for k, e in enumerate(bd.post):
            if '__CPROVER_old' in e:
                continue
            L.append('  CHECK_POST(%d, %s);' % (k + 1, impl_to_c(e.replace('__CPROVER_return_value', 'ret'))))
        if sp.sec('fullpost').strip():
            L.append('  full_post(%s);' % args)
        L.append('  std::printf(n_post_bad ? "REPLAY-REPRODUCED %d postcondition(s) fail on the real code\\n" : "REPLAY-NOT-REPRODUCED %d\\n", n_post_bad);')
        L.append('  return n_post_bad ? 1 : 0;\n}')
        src = '\n'.join(L) + '\n'
        src = src.replace('/*FULLPRE*/', sp.sec('fullpre'), 1)
        return src


def feat_config_dir():
    """directory holding feat_config.hpp (from /repo/_build, else generated from the .in template)."""
    d = os.path.join(E.REPO, '_build')
    if os.path.exists(os.path.join(d, 'feat_config.hpp')):
        return d
    g = os.path.join(VERIF, '.work', 'include')
    os.makedirs(g, exist_ok=True)
    out = os.path.join(g, 'feat_config.hpp')
    if not os.path.exists(out):
        t = open(os.path.join(E.REPO, 'feat_config.hpp.in')).read()
        t = re.sub(r'#cmakedefine\s+(\w+).*', r'/* #undef \1 */', t)
        t = re.sub(r'\$\{(\w+)\}', '', t)
        t = re.sub(r'@(\w+)@', '', t)
        open(out, 'w').write(t)
    return g


KERNEL_SRCS = ['kernel/backend.cpp', 'kernel/runtime.cpp', 'kernel/util/memory_pool.cpp', 'kernel/util/dist.cpp', 'kernel/util/statistics.cpp',
               'kernel/util/dist_file_io.cpp', 'kernel/util/property_map.cpp', 'kernel/util/kahan_summation.cpp',
               'kernel/adjacency/coloring.cpp', 'kernel/adjacency/cuthill_mckee.cpp', 'kernel/adjacency/graph.cpp', 'kernel/adjacency/permutation.cpp']


def native_build_run(src_path, exe, asan=True, timeout=300, full=False):
    inc = '-I%s -I%s' % (E.REPO, feat_config_dir())
    full = full or 'native glue' in open(src_path).read()
    srcs = ' '.join(os.path.join(E.REPO, f) for f in (KERNEL_SRCS if full else KERNEL_SRCS[:1]))
    cmd = 'g++ -std=c++17 -O0 -g -w -pthread %s %s %s %s -o %s' % ('-fsanitize=address -fno-omit-frame-pointer' if asan else '', inc, src_path, srcs, exe)
    rc, out, err, dt = E.sh(cmd, timeout, mem_kb=64 * 1024 * 1024 * 4)
    if rc != 0:
        return None, 'native build failed:\n' + (err or out)[-3000:], cmd
    try:
        p = subprocess.run([exe], stdout=subprocess.PIPE, stderr=subprocess.STDOUT, timeout=60, text=True, errors='replace',
                           env=dict(os.environ, ASAN_OPTIONS='detect_leaks=0'))
        return p.returncode, p.stdout[-6000:], cmd
    except subprocess.TimeoutExpired:
        return None, 'native replay timed out', cmd


def make_replay(verif, prop, sp, unit, cfgname, res, uf, wd, tier='quick'):
    """Write /verif/replays/<prop>-<unit>-<cfg>.json (+ .cpp when a concrete input was found).
    Returns (path, found_failing_input)."""
    rdir = os.path.join(verif, 'replays')
    os.makedirs(rdir, exist_ok=True)
    base = os.path.join(rdir, '%s-%s-%s' % (prop, sp.name, cfgname))
    rec = {
        'property': prop, 'unit': sp.name, 'config': cfgname, 'source': unit.info.get('file'), 'lines': unit.info.get('lines'),
        'failed_obligations': [{'name': o['name'], 'desc': o['desc'], 'line': o['line'], 'function': o.get('fn')} for o in uf[:20]],
        'n_failed_total': len(res.failed), 'verifier_cmds': res.cmds,
        'verifier_output': [m for m in getattr(res, 'messages', [])][-15:],
        'spec': os.path.relpath(sp.path, verif),
        'how_to_rerun': './check %s --replay %s.json' % (prop, os.path.relpath(base, verif)),
    }
    found = False
    note = ''
    try:
        if (sp.meta.get('native_call') or sp.sec('native_glue').strip()) and sp.meta.get('bounded', 'auto') != 'no':
            found, note, extra = bounded_and_native(sp, unit, cfgname, wd, base, res)
            rec.update(extra)
        elif sp.sec('native_driver').strip():
            found, note, extra = custom_native(sp, unit, cfgname, wd, base, res)
            rec.update(extra)
        else:
            note = 'no native replay driver for this unit'
    except Exception as e:  # replay trouble never changes the verdict
        note = 'counterexample search/replay broke: %s: %s' % (type(e).__name__, e)
    rec['failing_input_found'] = found
    rec['replay_note'] = note
    json.dump(rec, open(base + '.json', 'w'), indent=1)
    return base + '.json', found


def bounded_and_native(sp, unit, cfgname, wd, base, res=None):
    ctext = unit.ctext_plain
    extra = {}
    pre_trace = None
    if res is not None and res.mode == 'bounded':
        for o in res.failed:
            if o.get('trace'):
                pre_trace = o['trace']
                break
    cfg0 = sp.configs[cfgname]
    for bound in (int(cfg0.get('bound', sp.meta.get('bound', BOUND))),):
        bd = Bounded(sp, unit, cfgname, ctext, bound=bound)
        csrc = bd.c_source()
        cfile = os.path.join(wd, '%s.%s.bounded.c' % (sp.name, cfgname))
        open(cfile, 'w').write(csrc)
        cfg = sp.configs[cfgname]
        inc = '-I%s -I%s' % (os.path.join(HERE, 'shim'), os.path.join(VERIF, 'contracts', 'lib'))
        solver = cfg.get('bounded_solver', cfg.get('solver', 'sat'))
        qdefs = ' '.join(E.shlex.quote(d) for d in cfg.get('defs', '').split())
        uset = ''
        if cfg.get('unwindset'):
            ids = {l.label: l.cbmc_id for l in X.find_loops(ctext)}
            items = ['%s.%d:%s' % (sp.meta.get('cname'), ids[it.split(':')[0]], it.split(':')[1]) for it in cfg['unwindset'].split() if it.split(':')[0] in ids]
            if items:
                uset = ' --unwindset ' + ','.join(items)
        cmd = ('cbmc %s %s %s --function bharness --nondet-static --unwind %s' + uset + ' --bounds-check --pointer-check --div-by-zero-check --trace --json-ui -DVERIF_BOUNDED=1 %s') % (
            inc, qdefs, cfile, cfg.get('unwind', str(bound + 2)), E.SOLVERS.get(solver, ''))
        if pre_trace is not None:
            js = [{'result': [{'status': 'FAILURE', 'property': o['name'], 'description': o['desc'], 'trace': o.get('trace')} for o in res.failed]}]
            extra['bounded_cmd'] = res.cmds[-1] if res.cmds else ''
            extra['bounded_s'] = round(res.solver_s, 1)
        else:
            rc, out, err, dt = E.sh(cmd, int(cfg.get('bounded_timeout', '240')))
            extra['bounded_cmd'] = cmd
            extra['bounded_s'] = round(dt, 1)
            try:
                js = json.loads(out)
            except Exception:
                return False, 'bounded search gave no parseable output: ' + (err or out)[-300:], extra
        trace = None
        failed = []
        for item in js:
            if 'result' in item:
                for r in item['result']:
                    if r.get('status') == 'FAILURE':
                        failed.append('%s: %s' % (r.get('property'), r.get('description')))
                        if 'trace' in r and trace is None:
                            trace = r['trace']
        extra['bounded_failed'] = failed[:10]
        if trace is None:
            return False, 'bounded search (all arrays <= %d elements) found no failing input' % bound, extra
        vals = trace_values(trace)
        extra['input'] = {k: {('%s' % i if i is not None else 'value'): v[0] for i, v in d.items()} for k, d in vals.items()
                          if k.startswith('in_') or k in {g[1] for g in bd.ghosts}}
        nat = Native(bd, vals)
        src = nat.source()
        cpp = base + '.cpp'
        open(cpp, 'w').write(src)
        exe = os.path.join(wd, '%s.%s.replay' % (sp.name, cfgname))
        rc, out, cmd = native_build_run(cpp, exe)
        extra['native_cmd'] = cmd
        extra['native_output'] = out
        extra['native_rc'] = rc
        if rc is None:
            return False, 'bounded counterexample found but native replay could not be built/run', extra
        if rc == 1 or 'AddressSanitizer' in (out or ''):
            return True, 'counterexample replayed on the real template: ' + (out or '').strip().split('\n')[-1][:200], extra
        if rc == 3:
            return False, 'bounded counterexample violates the full precondition (not a valid input)', extra
        return False, 'bounded counterexample does not reproduce on the real template', extra
    return False, '', extra


def custom_native(sp, unit, cfgname, wd, base, res):
    """Units whose real code is a C++ method: the spec ships a complete native driver (@@native_driver)
    that exercises the real class on a fixed family of inputs and exits 1 if the property fails."""
    cpp = base + '.cpp'
    open(cpp, 'w').write(sp.sec('native_driver'))
    exe = os.path.join(wd, '%s.%s.replay' % (sp.name, cfgname))
    rc, out, cmd = native_build_run(cpp, exe, full=True)
    extra = {'native_cmd': cmd, 'native_output': out, 'native_rc': rc}
    if rc == 1 or 'AddressSanitizer' in (out or ''):
        return True, 'native driver reproduces on the real class: ' + (out or '').strip().split('\n')[-1][:200], extra
    return False, 'native driver did not reproduce (rc=%s)' % rc, extra


def rerun(path):
    rec = json.load(open(path))
    cpp = path[:-5] + '.cpp'
    print('replay of %s unit=%s config=%s' % (rec['property'], rec['unit'], rec['config']))
    for o in rec['failed_obligations'][:5]:
        print('  failed obligation: %s :: %s (line %s)' % (o['name'], o['desc'], o['line']))
    if not os.path.exists(cpp):
        print('  no concrete input was found by the verifier (no-failing-input-found); verifier output:')
        for m in rec.get('verifier_output', []):
            print('   |', m)
        return 1
    wd = os.path.join(VERIF, '.work', 'replay_%d' % os.getpid())
    os.makedirs(wd, exist_ok=True)
    try:
        rc, out, cmd = native_build_run(cpp, os.path.join(wd, 'replay'), full=('native glue' in open(cpp).read() or 'native replay (used only after' in open(cpp).read()))
        print(cmd)
        print(out)
        return 1 if (rc == 1 or 'AddressSanitizer' in (out or '')) else 0
    finally:
        shutil.rmtree(wd, ignore_errors=True)


# ---------------------------------------------------------------- bounded mode as a first-class (labelled) check
def run_bounded_unit(unit, cfgname, workdir, tier='quick', mutate=None):
    """mode: bounded / harness: generated -- the function contract (+ @@fullpre / @@fullpost with loops) is checked on
    constant-size symbolic arrays with all loops unwound (unwinding assertions on). Never counted as proved."""
    sp = unit.spec
    cfg = sp.configs[cfgname]
    res = E.Result(unit, cfgname)
    res.mode = 'bounded'
    res.backend = cfg.get('solver', 'sat')
    try:
        ctext = unit.extract(mutate=mutate)
        bound = int(cfg.get('bound_thorough' if tier == 'thorough' and 'bound_thorough' in cfg else 'bound', BOUND))
        bd = Bounded(sp, unit, cfgname, ctext, bound=bound)
        csrc = bd.c_source()
    except X.ExtractError as e:
        res.status, res.reason = 'inconclusive', 'extraction broke: %s' % e
        return res
    except (ValueError, IndexError, KeyError, AssertionError) as e:
        res.status, res.reason = 'inconclusive', 'extraction broke (%s: %s)' % (type(e).__name__, e)
        return res
    unit.bounded = bd
    cfile = os.path.join(workdir, '%s.%s.bounded.c' % (sp.name, cfgname))
    open(cfile, 'w').write(csrc)
    res.cfile = cfile
    inc = '-I%s -I%s' % (os.path.join(HERE, 'shim'), os.path.join(VERIF, 'contracts', 'lib'))
    qdefs = ' '.join(E.shlex.quote(d) for d in cfg.get('defs', '').split())
    unwind = cfg.get('unwind_thorough' if tier == 'thorough' and 'unwind_thorough' in cfg else 'unwind', str(bound + 2))
    tmo = int(cfg.get('timeout_thorough' if tier == 'thorough' else 'timeout', cfg.get('timeout', '300')))
    uset = ''
    us_key = 'unwindset_thorough' if tier == 'thorough' and 'unwindset_thorough' in cfg else 'unwindset'
    if cfg.get(us_key):
        ids = {l.label: l.cbmc_id for l in X.find_loops(ctext)}
        items = []
        for it in cfg[us_key].split():
            lab, k = it.split(':')
            if lab in ids:
                items.append('%s.%d:%s' % (sp.meta.get('cname'), ids[lab], k))
        if items:
            uset = ' --unwindset ' + ','.join(items)
    cmd = ('cbmc %s %s %s --function bharness --nondet-static --unwind %s' + uset + ' --unwinding-assertions --no-malloc-may-fail --bounds-check --pointer-check --div-by-zero-check --trace --json-ui -DVERIF_BOUNDED=1 %s') % (
        inc, qdefs, cfile, unwind, E.SOLVERS.get(res.backend, ''))
    res.cmds.append(cmd)
    rc, out, err, dt = E.sh(cmd, tmo)
    res.solver_s = dt
    if err == 'TIMEOUT' and rc == -9:
        res.status, res.reason = 'inconclusive', 'cbmc timeout after %ds (bounded)' % tmo
        return res
    try:
        js = json.loads(out)
    except Exception:
        res.status, res.reason = 'inconclusive', 'cbmc output not parseable (rc=%s): %s' % (rc, (out + err)[-400:])
        return res
    results = None
    msgs = []
    for item in js:
        if 'result' in item:
            results = item['result']
        if 'messageText' in item:
            msgs.append(item['messageText'])
    res.messages = msgs
    if results is None:
        res.status, res.reason = 'inconclusive', 'cbmc gave no result list: ' + '\n'.join(msgs)[-500:]
        return res
    for r in results:
        ob = {'name': r.get('property'), 'desc': r.get('description'), 'status': r.get('status'),
              'line': (r.get('sourceLocation') or {}).get('line'), 'fn': (r.get('sourceLocation') or {}).get('function')}
        if 'trace' in r:
            ob['trace'] = r['trace']
        res.obligations.append(ob)
    res.failed = [o for o in res.obligations if o['status'] == 'FAILURE']
    res.unknown = [o for o in res.obligations if o['status'] not in ('SUCCESS', 'FAILURE')]
    if res.unknown and not res.failed:
        res.status, res.reason = 'inconclusive', '%d obligations left undetermined by cbmc (status %s)' % (len(res.unknown), res.unknown[0]['status'])
        return res
    nb = re.findall(r'no body for (?:function|callee) (\S+)', '\n'.join(msgs))
    if nb:
        res.status, res.reason = 'inconclusive', 'function without body: %s' % sorted(set(nb))
        return res
    unwf = [o for o in res.failed if 'unwinding assertion' in (o['desc'] or '')]
    if unwf:
        res.status, res.reason = 'inconclusive', 'unwinding bound too small: %s' % unwf[0]['desc']
        return res
    if not res.obligations:
        res.status, res.reason = 'inconclusive', 'zero obligations'
        return res
    res.status = 'fail' if res.failed else 'ok'
    return res


def bounded_reach_probe(unit, cfgname, workdir):
    """vacuity guard for bounded units: the end of bharness must be reachable (assumptions satisfiable)."""
    sp = unit.spec
    bd = getattr(unit, 'bounded', None)
    if bd is None:
        return None
    csrc = bd.c_source().rstrip()
    assert csrc.endswith('}')
    csrc = csrc[:-1] + '  __CPROVER_assert(0, "reach_end");\n}\n'
    cfile = os.path.join(workdir, '%s.%s.bounded.probe.c' % (sp.name, cfgname))
    open(cfile, 'w').write(csrc)
    cfg = sp.configs[cfgname]
    inc = '-I%s -I%s' % (os.path.join(HERE, 'shim'), os.path.join(VERIF, 'contracts', 'lib'))
    qdefs = ' '.join(E.shlex.quote(d) for d in cfg.get('defs', '').split())
    cmd = 'cbmc %s %s %s --function bharness --nondet-static --unwind %s --no-unwinding-assertions --property bharness.assertion.%s -DVERIF_BOUNDED=1 %s' % (
        inc, qdefs, cfile, (cfg.get('unwind_thorough') if ('unwind_thorough' in cfg and str(bd.bound) == str(cfg.get('bound_thorough', ''))) else cfg.get('unwind', str(bd.bound + 2))), '%d', E.SOLVERS.get(cfg.get('solver', 'sat'), ''))
    # the reach assertion is the last assertion of bharness
    n = csrc[csrc.index('void bharness'):].count('__CPROVER_assert(')
    rc, out, err, dt = E.sh(cmd % n, int(cfg.get('timeout', '300')))
    if 'reach_end: FAILURE' in out or re.search(r'reach_end.*FAILURE', out):
        return None
    if 'VERIFICATION SUCCESSFUL' in out:
        return 'vacuous: end of bounded harness unreachable (contradictory assumptions?)'
    return 'probe inconclusive: ' + (out + err)[-200:]
