#!/bin/bash
# try_mutant.sh <seeded id> [extra check args]: apply the seeded patch to /repo, run the property's check, restore /repo
ID=$1; shift; P=${ID%%_*}
cd /repo && git apply /verif/seeded/$ID/patch.diff || { echo "patch does not apply"; exit 2; }
cd /verif && ./check $P "$@" > /tmp/try_$ID.log 2>&1; rc=$?
cd /repo && git checkout -q -- .
cd /verif && git checkout -q -- evidence/$P.json 2>/dev/null   # the evidence of a run on a changed tree is not kept
echo "$ID rc=$rc :: $(grep -E '^VIOLATION|^INCONCLUSIVE' /tmp/try_$ID.log | head -3 | tr '\n' ' ') :: $(tail -1 /tmp/try_$ID.log)"
