#!/usr/bin/env python3
"""setup_cmd: nothing is built ahead of time (every check re-extracts from /repo); just verify the tools exist."""
import shutil, sys, subprocess
missing = [t for t in ('cbmc', 'goto-cc', 'goto-instrument', 'kissat', 'cvc5', 'g++', 'python3') if not shutil.which(t)]
if missing:
    print('missing tools:', missing); sys.exit(1)
print(subprocess.run(['cbmc', '--version'], capture_output=True, text=True).stdout.strip())
