/* C shim for FEAT3 kernels extracted to C (DESIGN §3.1, rule R6/R9/R10/R15).
 * Trusted base: each macro mirrors kernel/util/math.hpp / assertion.hpp. */
#ifndef FEAT_C_H
#define FEAT_C_H
#include <stddef.h>
#include <stdint.h>
#include <stdbool.h>

typedef uint64_t Index;   /* FEAT::Index = std::uint64_t in this build (kernel/base_header.hpp) */

#ifdef FEAT_C_NATIVE      /* compiled by gcc for the differential smoke test: contracts vanish */
#include <math.h>
#include <stdlib.h>
#include <string.h>
#define __CPROVER_requires(...)
#define __CPROVER_ensures(...)
#define __CPROVER_assigns(...)
#define __CPROVER_loop_invariant(...)
#define __CPROVER_decreases(...)
#define __CPROVER_assume(c) ((void)0)
#define __CPROVER_assert(c, m) do { if(!(c)) { feat_c_assert_failed = 1; } } while(0)
extern int feat_c_assert_failed;
#define FEAT_XABORT(m) do { feat_c_assert_failed = 2; return; } while(0)
#else
#define FEAT_XABORT(m) do { __CPROVER_assert(0, m); __CPROVER_assume(0); } while(0)
double fabs(double);
double sqrt(double);
#endif

/* Math::abs<T>(x) = (x < T(0) ? -x : x); std::abs for floating types */
#ifdef FEAT_FP
#ifdef FEAT_C_NATIVE
#define FEAT_abs(x) fabs(x)
#else
#define FEAT_abs(x) __CPROVER_fabs(x)
#endif
#define FEAT_isfinite(x) __CPROVER_isfinited(x)
#define FEAT_isnan(x) __CPROVER_isnand(x)
#define FEAT_sqrt(x) sqrt(x)
#define FEAT_eps(T) 2.220446049250313080847263336181640625e-16  /* DBL_EPSILON == std::numeric_limits<double>::epsilon() */
#define FEAT_huge(T) 1.7976931348623157e308
#define FEAT_tiny(T) 2.2250738585072014e-308
#else
#define FEAT_abs(x) ((x) < 0 ? -(x) : (x))
#define FEAT_eps(T) 0   /* std::numeric_limits<integer>::epsilon() == 0 */
#endif
#define FEAT_min(a, b) ((a) < (b) ? (a) : (b))
#define FEAT_max(a, b) ((a) < (b) ? (b) : (a))
#define FEAT_sqr(x) ((x) * (x))
#define FEAT_cub(x) ((x) * (x) * (x))

#endif
