#!/usr/bin/env python3
"""Regenerates MANIFEST.json from xc/manifest_data.py (claims, notes) so that it always validates."""
import json, os, sys, glob
HERE = os.path.dirname(os.path.abspath(__file__)); V = os.path.dirname(HERE)
sys.path.insert(0, HERE)
from manifest_data import CHECKS, NOT_APPLICABLE, NOTES, SOURCE_COMMITS, PLANNED
checks = []
for pid, c in sorted(CHECKS.items()):
    if not glob.glob(os.path.join(V, 'contracts', pid, '*.spec')):
        continue
    checks.append({
        'property_id': pid,
        'quick_cmd': './check %s --tier quick' % pid,
        'thorough_cmd': './check %s --tier thorough' % pid,
        'evidence_file': 'evidence/%s.json' % pid,
        'replay_cmd_template': './check %s --replay {path}' % pid,
        'engine': 'xc',
        'level_claimed': {'category': c['level'], 'text': c['text'], 'design_ref': c.get('design_ref', 'DESIGN.md §5 ' + pid)},
        'level_note': c['note'],
        'technique': c['technique'],
    })
claimed = {c['property_id'] for c in checks}
na = [{'property_id': k, 'reason': v} for k, v in sorted(NOT_APPLICABLE.items()) if k not in claimed]
for pid, c in sorted(CHECKS.items()):
    if pid not in claimed:
        na.append({'property_id': pid, 'reason': 'planned slice not built yet: ' + c['text'][:120]})
for pid, txt in sorted(PLANNED.items()):
    if pid not in claimed and pid not in CHECKS:
        na.append({'property_id': pid, 'reason': 'planned slice not built (yet): ' + txt})
m = {
    'version': 1,
    'setup_cmd': 'python3 xc/setup_check.py',
    'hooks': {'guard': 'FEAT_VERIF_XC', 'enable': 'none needed: contracts live in /verif/contracts, ghost state in generated harnesses; extraction reads /repo read-only (the guard name is reserved, no /repo file uses it)',
              'baseline_off_cmd': 'ctest --test-dir /repo/_build -j8 --timeout 900', 'source_commits': SOURCE_COMMITS, 'add_only': True},
    'engines': [{'name': 'xc', 'path': 'xc/', 'serves_properties': sorted(claimed),
                 'kind_free_text': 'mechanical C extraction of FEAT3 kernels + CBMC 6.11 code contracts (goto-instrument --dfcc, loop contracts), bounded counterexample search, native replay against the real C++ templates'}],
    'checks': checks,
    'notes': NOTES,
    'not_applicable': sorted(na, key=lambda x: x['property_id']),
}
json.dump(m, open(os.path.join(V, 'MANIFEST.json'), 'w'), indent=1)
print('MANIFEST.json: %d checks, %d not applicable' % (len(checks), len(na)))
